(* MODEL: query_model *)
(* Line-protocol driver for the extracted query models (engine "query", property C13).
   stdin : one request per line, space-separated tokens; stdout: one answer line per request.
   Strings: "-" = empty, otherwise comma-separated code points; "~" = None. Booleans: 1 / 0.
     M ic ir pat val          -> T | F | U     value_matches (U: pattern outside the regex fragment)
     MB ic ir pat v1 .. vn    -> a string of T/F/U, one per value
     A ic ir pat              -> T | F         is_pattern_absolute
     G pat val                -> T | F         glob_match
     X s                      -> string        re_escape_str
     E ci s val               -> T | F         rmatch ci (regex_escape s) val
     P ci s val               -> T | F         rmatch ci (regex_prefix s) val
     Q ic ir nk bk  <pats> <keys> <folded ids> <parents> <others>   -> ids   run_query
     N ic ir <pats> <keys> <folded ids> <objs>                    -> ids   run_netlists
     H ic ir <pats> <names> <refs-in-order> <in_yield> -> ids   run_hier
     op <ir op>                                        -> ok | <exception>   one step of the IR model (same op
                                                          syntax as driver_ir.ml / driver_hier.ml); "reset" starts over
     F fn reg ic ir rec sel cbm cbr key <pats> <roots> -> ids | FUEL | ERR key
                                                          the whole query fn (Query/Enum.v: candidate enumeration +
                                                          filter stages) on the current state. fn = instances |
                                                          definitions | libraries | ports | netlists | cables | pins |
                                                          wires; sel = INSIDE | OUTSIDE | BOTH | ALL; the callback
                                                          accepts e iff cbm = 0 or e mod cbm <> cbr; roots = n tok*,
                                                          tok = E<id> | O<inst>.<pin> | D | H<id>/<id>/.. (root first);
                                                          pins are printed as I<id> | O<inst>.<pin> | D
   <pats> = n p1..pn ; <keys> = n (id val)* ; <parents> = n (mode m c1..cm)* with mode s|l|n ;
   id lists = n i1..in ; bk = f | k | d.
   Trusted glue: parsing, printing, and [freeze] (memoises the total maps of the state; it does not
   change any value). *)
open Query_model

let rec nat_of_int n = if n <= 0 then O else S (nat_of_int (n - 1))
let rec int_of_nat = function O -> 0 | S n -> 1 + int_of_nat n
let rec pos_of_int n = if n <= 1 then XH else if n land 1 = 0 then XO (pos_of_int (n lsr 1)) else XI (pos_of_int (n lsr 1))
let rec int_of_pos = function XH -> 1 | XO p -> 2 * int_of_pos p | XI p -> 2 * int_of_pos p + 1
let n_of_int n = if n = 0 then N0 else Npos (pos_of_int n)
let int_of_n = function N0 -> 0 | Npos p -> int_of_pos p

let str_of_tok t = if t = "-" then [] else List.map (fun x -> n_of_int (int_of_string x)) (String.split_on_char ',' t)
let tok_of_str s = if s = [] then "-" else String.concat "," (List.map (fun c -> string_of_int (int_of_n c)) s)
let optstr_of_tok t = if t = "~" then None else Some (str_of_tok t)
let bool_of_tok t = (t = "1")
let tf b = if b then "T" else "F"

let take_list toks conv = match toks with
  | c :: rest ->
    let n = int_of_string c in
    let rec go k acc l = if k = 0 then (List.rev acc, l) else match l with x :: l' -> go (k - 1) (conv x :: acc) l' | [] -> failwith "short list" in
    go n [] rest
  | [] -> failwith "missing count"

let take_pairs toks conv = match toks with
  | c :: rest ->
    let n = int_of_string c in
    let rec go k acc l = if k = 0 then (List.rev acc, l) else match l with a :: b :: l' -> go (k - 1) ((int_of_string a, conv b) :: acc) l' | _ -> failwith "short pairs" in
    go n [] rest
  | [] -> failwith "missing count"

let z_of_int n = if n = 0 then Z0 else if n > 0 then Zpos (pos_of_int n) else Zneg (pos_of_int (-n))
let int_of_z = function Z0 -> 0 | Zpos p -> int_of_pos p | Zneg p -> - (int_of_pos p)

let optid_of_tok t = if t = "~" then None else Some (nat_of_int (int_of_string t))
let id_of_tok t = nat_of_int (int_of_string t)

let val_of_tok t =
  if t = "n" then VNone
  else match t.[0] with
    | 's' -> VStr (str_of_tok (String.sub t 2 (String.length t - 2)))
    | 'i' -> VInt (z_of_int (int_of_string (String.sub t 2 (String.length t - 2))))
    | 'b' -> VBool (t = "b:1")
    | _ -> failwith ("bad val " ^ t)

let tok_of_val = function
  | VStr s -> "s:" ^ tok_of_str s
  | VInt z -> "i:" ^ string_of_int (int_of_z z)
  | VBool b -> if b then "b:1" else "b:0"
  | VNone -> "n"

let pin_of_tok t =
  if t = "D" then PDet
  else if t.[0] = 'I' then PIn (id_of_tok (String.sub t 1 (String.length t - 1)))
  else match String.split_on_char '.' (String.sub t 1 (String.length t - 1)) with
    | [a; b] -> POut (id_of_tok a, id_of_tok b)
    | _ -> failwith ("bad pin " ^ t)

let tok_of_pin = function
  | PIn i -> "I" ^ string_of_int (int_of_nat i)
  | POut (n, i) -> "O" ^ string_of_int (int_of_nat n) ^ "." ^ string_of_int (int_of_nat i)
  | PDet -> "D"

let kind_of_tok = function
  | "netlist" -> KNetlist | "library" -> KLibrary | "definition" -> KDefinition | "port" -> KPort
  | "cable" -> KCable | "wire" -> KWire | "pin" -> KPin | "instance" -> KInstance
  | t -> failwith ("bad kind " ^ t)
let tok_of_kind = function
  | KNetlist -> "netlist" | KLibrary -> "library" | KDefinition -> "definition" | KPort -> "port"
  | KCable -> "cable" | KWire -> "wire" | KPin -> "pin" | KInstance -> "instance"
let rel_of_tok = function
  | "libs" -> RLibs | "defs" -> RDefs | "ports" -> RPorts | "cables" -> RCables
  | "children" -> RChildren | "pins" -> RPins | "wires" -> RWires
  | t -> failwith ("bad rel " ^ t)
let tok_of_rel = function
  | RLibs -> "libs" | RDefs -> "defs" | RPorts -> "ports" | RCables -> "cables"
  | RChildren -> "children" | RPins -> "pins" | RWires -> "wires"

(* token stream helpers *)
let take_n toks = match toks with
  | c :: rest ->
    let n = int_of_string c in
    let rec go k acc l = if k = 0 then (List.rev acc, l) else match l with x :: l' -> go (k - 1) (x :: acc) l' | [] -> failwith "short list" in
    go n [] rest
  | [] -> failwith "missing count"

let take_props toks = match toks with
  | c :: rest ->
    let n = int_of_string c in
    let rec go k acc l = if k = 0 then (List.rev acc, l) else match l with kk :: vv :: l' -> go (k - 1) ((str_of_tok kk, val_of_tok vv) :: acc) l' | _ -> failwith "short props" in
    go n [] rest
  | [] -> failwith "missing count"

let optnat_of_tok t = if t = "~" then None else Some (nat_of_int (int_of_string t))

let parse_op line : op =
  match String.split_on_char ' ' (String.trim line) with
  | "new" :: k :: nm :: rest -> let (props, _) = take_props rest in ONew (kind_of_tok k, optstr_of_tok nm, props)
  | "create" :: r :: p :: nm :: rest ->
    let (props, rest) = take_props rest in
    (match rest with
     | [items; rf] -> OCreate (rel_of_tok r, id_of_tok p, optstr_of_tok nm, props, nat_of_int (int_of_string items), optid_of_tok rf)
     | _ -> failwith "bad create")
  | [ "items"; r; p; n ] -> OCreateItems (rel_of_tok r, id_of_tok p, nat_of_int (int_of_string n))
  | [ "add"; r; p; c; pos ] -> OAdd (rel_of_tok r, id_of_tok p, id_of_tok c, optnat_of_tok pos)
  | [ "remove"; r; p; c ] -> ORemove (rel_of_tok r, id_of_tok p, id_of_tok c)
  | "removefrom" :: r :: p :: rest -> let (l, _) = take_n rest in ORemoveFrom (rel_of_tok r, id_of_tok p, List.map id_of_tok l)
  | "reorder" :: r :: p :: rest -> let (l, _) = take_n rest in OReorder (rel_of_tok r, id_of_tok p, List.map id_of_tok l)
  | "reorderwire" :: w :: rest -> let (l, _) = take_n rest in OReorderWire (id_of_tok w, List.map pin_of_tok l)
  | [ "connect"; w; p; pos ] -> OConnect (id_of_tok w, pin_of_tok p, optnat_of_tok pos)
  | [ "disconnect"; w; p ] -> ODisconnect (id_of_tok w, pin_of_tok p)
  | "disconnectfrom" :: w :: rest -> let (l, _) = take_n rest in ODisconnectFrom (id_of_tok w, List.map pin_of_tok l)
  | [ "setref"; x; v ] -> OSetReference (id_of_tok x, optid_of_tok v)
  | [ "settop"; n; a ] ->
    let arg = if a = "N" then TopNone
      else if a.[0] = 'I' then TopInst (id_of_tok (String.sub a 1 (String.length a - 1)))
      else TopDef (id_of_tok (String.sub a 1 (String.length a - 1))) in
    OSetTop (id_of_tok n, arg)
  | [ "setname"; e; nm ] -> OSetName (id_of_tok e, optstr_of_tok nm)
  | [ "delname"; e ] -> ODelName (id_of_tok e)
  | [ "dset"; e; k; v ] -> ODSet (id_of_tok e, str_of_tok k, val_of_tok v)
  | [ "ddel"; e; k ] -> ODDel (id_of_tok e, str_of_tok k)
  | [ "dpop"; e; k ] -> ODPop (id_of_tok e, str_of_tok k)
  | [ "downto"; b; v ] -> OSetDownto (id_of_tok b, v = "1")
  | [ "scalar"; b; v ] -> OSetScalar (id_of_tok b, v = "1")
  | [ "lower"; b; v ] -> OSetLower (id_of_tok b, z_of_int (int_of_string v))
  | [ "direction"; p; d ] -> OSetDirection (id_of_tok p, (match d with "0" -> DUndef | "1" -> DInout | "2" -> DIn | _ -> DOut))
  | [ "policy"; p ] -> OSetPolicy (if p = "1" then PolEdif else PolDefault)
  | _ -> failwith ("bad op: " ^ line)



(* ---- memoised copy of the state (pure speed-up of the lookups) ---- *)
let memo1 (f : nat -> 'a) : nat -> 'a =
  let t = Hashtbl.create 256 in
  fun x -> let k = int_of_nat x in
    match Hashtbl.find_opt t k with Some v -> v | None -> let v = f x in Hashtbl.add t k v; v
let all_rels = [ RLibs; RDefs; RPorts; RCables; RChildren; RPins; RWires ]
let memo_rel (f : rel -> nat -> 'a) : rel -> nat -> 'a =
  let ms = List.map (fun r -> (r, memo1 (f r))) all_rels in
  fun r -> List.assoc r ms
let freeze (s : state) : state =
  { s with kind_of = memo1 s.kind_of; kids = memo_rel s.kids; par = memo_rel s.par;
           wpins = memo1 s.wpins; ipwire = memo1 s.ipwire; iref = memo1 s.iref; drefs = memo1 s.drefs;
           ipins = memo1 s.ipins; top = memo1 s.top; data = memo1 s.data;
           bscalar = memo1 s.bscalar; blower = memo1 s.blower }


let ids_out l = if l = [] then "-" else String.concat "," (List.map (fun i -> string_of_int (int_of_nat i)) l)

let keyfun pairs = fun (i : nat) -> (try List.assoc (int_of_nat i) pairs with Not_found -> None)

(* ---- the current netlist (rebuilt from op lines) and the whole queries of Query/Enum.v ---- *)
let st = ref init
let frozen : state option ref = ref None
let cur () = match !frozen with Some s -> s | None -> let s = freeze !st in frozen := Some s; s
let big_fuel = nat_of_int 400000

let tok_of_exn = function
  | XAssert -> "assert" | XValue -> "value" | XKey -> "key" | XRuntime -> "runtime" | XType -> "type" | XStuck -> "key"

let item_of_tok t : item =
  if t = "D" then IDet
  else match t.[0] with
    | 'E' -> IE (id_of_tok (String.sub t 1 (String.length t - 1)))
    | 'O' -> (match String.split_on_char '.' (String.sub t 1 (String.length t - 1)) with
        | [a; b] -> IO (id_of_tok a, id_of_tok b)
        | _ -> failwith ("bad root " ^ t))
    | 'H' -> IH (List.rev_map id_of_tok (String.split_on_char '/' (String.sub t 1 (String.length t - 1))))   (* model is leaf first *)
    | _ -> failwith ("bad root " ^ t)

let wres_out pr = function
  | WOk l -> if l = [] then "-" else String.concat "," (List.map pr l)
  | WFuel -> "FUEL"
  | WErr -> "ERR key"

let pin_weight_cb = function PIn i -> int_of_nat i | POut (n, i) -> int_of_nat n + int_of_nat i | PDet -> 0

let sel_of_tok = function
  | "INSIDE" -> SInside | "OUTSIDE" -> SOutside | "BOTH" -> SBoth | "ALL" -> SAll
  | t -> failwith ("bad selection " ^ t)

let full_query toks =
  match toks with
  | fn :: reg :: ic :: ir :: rc :: sl :: cbm :: cbr :: key :: rest ->
    let pats, rest = take_list rest str_of_tok in
    let roots, _ = take_list rest item_of_tok in
    let m = int_of_string cbm and r = int_of_string cbr in
    let cb = fun (e : nat) -> m = 0 || (int_of_nat e) mod m <> r in
    let pcb = fun (p : pin) -> m = 0 || (pin_weight_cb p) mod m <> r in
    let o = { q_reg = bool_of_tok reg; q_case = bool_of_tok ic; q_re = bool_of_tok ir; q_key = str_of_tok key; q_cb = cb } in
    let s = cur () and recb = bool_of_tok rc in
    let inside = (sl = "INSIDE") in
    let sid x = string_of_int (int_of_nat x) in
    (match fn with
     | "instances" -> wres_out sid (query_instances s o big_fuel roots recb inside pats)
     | "definitions" -> wres_out sid (query_definitions s o big_fuel roots recb inside pats)
     | "libraries" -> wres_out sid (query_libraries s o big_fuel roots recb inside pats)
     | "ports" -> wres_out sid (query_ports s o big_fuel roots pats)
     | "netlists" -> wres_out sid (query_netlists s o big_fuel roots pats)
     | "pins" -> wres_out tok_of_pin (query_pins s pcb big_fuel roots inside)
     | "cables" -> wres_out sid (query_cables s o big_fuel roots recb (sel_of_tok sl) pats)
     | "wires" -> wres_out sid (query_wires s cb big_fuel roots recb (sel_of_tok sl))
     | _ -> failwith ("bad query function " ^ fn))
  | _ -> failwith "bad F request"

let handle line =
  match String.split_on_char ' ' line with
  | ["reset"] -> st := init; frozen := None; "reset"
  | "op" :: _ ->
    let o = parse_op (String.sub line 3 (String.length line - 3)) in
    let s0 = { !st with log = [] } in
    let (s1, out) = step s0 o in
    st := s1; frozen := None;
    (match out with None -> "ok" | Some x -> tok_of_exn x)
  | "F" :: rest -> full_query (List.filter (fun t -> t <> "") rest)
  | ["M"; ic; ir; p; v] ->
    (match value_matches (optstr_of_tok v) (str_of_tok p) (bool_of_tok ic) (bool_of_tok ir) with
     | Some b -> tf b | None -> "U")
  | "MB" :: ic :: ir :: p :: vals ->
    let pat = str_of_tok p and icb = bool_of_tok ic and irb = bool_of_tok ir in
    String.concat "" (List.map (fun v ->
        match value_matches (optstr_of_tok v) pat icb irb with
        | Some b -> tf b | None -> "U") vals)
  | ["A"; ic; ir; p] -> tf (is_pattern_absolute (str_of_tok p) (bool_of_tok ic) (bool_of_tok ir))
  | ["G"; p; v] -> tf (glob_match (str_of_tok p) (str_of_tok v))
  | ["X"; s] -> tok_of_str (re_escape_str (str_of_tok s))
  | ["E"; ci; s; v] -> tf (rmatch (bool_of_tok ci) (regex_escape (str_of_tok s)) (str_of_tok v))
  | ["P"; ci; s; v] -> tf (rmatch (bool_of_tok ci) (regex_prefix (str_of_tok s)) (str_of_tok v))
  | "Q" :: ic :: ir :: nk :: bk :: rest ->
    let pats, rest = take_list rest str_of_tok in
    let keys, rest = take_pairs rest optstr_of_tok in
    let key = keyfun keys in
    let folded, rest = take_list rest int_of_string in
    let fold = fun (i : nat) -> List.mem (int_of_nat i) folded in
    let nparents, rest = (match rest with c :: r -> (int_of_string c, r) | [] -> failwith "parents") in
    let rec parents k acc l =
      if k = 0 then (List.rev acc, l) else
        match l with
        | mode :: l' ->
          let ch, l'' = take_list l' (fun x -> nat_of_int (int_of_string x)) in
          let lk = (match mode with
              | "s" -> scan_lookup key fold ch
              | "l" -> lookup_lower key ch
              | _ -> failwith "bad lookup mode") in
          parents (k - 1) ((lk, ch) :: acc) l''
        | [] -> failwith "short parents" in
    let ps, rest = parents nparents [] rest in
    let others, _ = take_list rest (fun x -> nat_of_int (int_of_string x)) in
    let bkv = (match bk with "f" -> BFound | "d" -> BNames | _ -> failwith "bad bk") in
    ids_out (run_query (bool_of_tok ic) (bool_of_tok ir) key fold (bool_of_tok nk) bkv ps others pats)
  | "N" :: ic :: ir :: rest ->
    let pats, rest = take_list rest str_of_tok in
    let keys, rest = take_pairs rest optstr_of_tok in
    let folded, rest = take_list rest int_of_string in
    let fold = fun (i : nat) -> List.mem (int_of_nat i) folded in
    let objs, _ = take_list rest (fun x -> nat_of_int (int_of_string x)) in
    ids_out (run_netlists (bool_of_tok ic) (bool_of_tok ir) (keyfun keys) fold objs pats)
  | "H" :: ic :: ir :: rest ->
    let pats, rest = take_list rest str_of_tok in
    let names, rest = take_pairs rest str_of_tok in
    let hname = fun (i : nat) -> (try List.assoc (int_of_nat i) names with Not_found -> []) in
    let refs, rest = take_list rest (fun x -> nat_of_int (int_of_string x)) in
    let iny, _ = take_list rest (fun x -> nat_of_int (int_of_string x)) in
    ids_out (run_hier (bool_of_tok ic) (bool_of_tok ir) hname refs iny pats)
  | _ -> "ERR bad request"

let () =
  try
    while true do
      let line = input_line stdin in
      let out = (try handle line with Failure m -> "ERR " ^ m | Not_found -> "ERR notfound" | Invalid_argument m -> "ERR " ^ m) in
      print_string out; print_char '\n'
    done
  with End_of_file -> ()
