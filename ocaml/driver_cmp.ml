(* MODEL: cmp_model *)
(* Line-protocol driver for the extracted comparer model (engine "cmp", property C20).
   stdin : one request per line:   <a> <b>      two netlist values, whitespace separated tokens
                                   K <a>        the keys of all pins on the wires of a
   stdout: one line per request:   <outcome> wf=<0|1> noasg=<0|1>
           outcome of Cmp_model.cmp_run a b; wf/noasg = wf_namedb / no_asgb of a.
           for K: "keys" followed by one token per pin (libraries / definitions / cables / wires /
           pins in order), Cmp_model.nv_keys a: k:<0|1 outer>:<instance name>:<port name>:<index>
           or e:<outcome> when get_pin_key raises
   Token grammar (see harness/cmp_canon.py, which prints it):
     nv    := "N" name oid top nlibs lib*
     top   := "T0" | "T1" inst
     inst  := name oid ref props
     ref   := "R0" | "R1" name name
     props := "P0" | "P1" ndicts (nitems (key val)* )*
     val   := "s:"str | "i:"int | "b:0" | "b:1" | "n"
     lib   := name oid ndefs def*
     def   := name oid nports port* ncables cable* ninsts inst*
     port  := name oid dir array width lower
     cable := name oid nwires (npins pin* )*
     pin   := "I" name bit | "O" name name bit | "D" name name name name bit | "X" | "L"
     name/oid := "~" (None) | "-" (empty string) | comma separated code points
   Trusted glue: parsing and printing only. *)
open Cmp_model

let rec nat_of_int n = if n <= 0 then O else S (nat_of_int (n - 1))
let rec pos_of_int n = if n <= 1 then XH else if n land 1 = 0 then XO (pos_of_int (n lsr 1)) else XI (pos_of_int (n lsr 1))
let n_of_int n = if n = 0 then N0 else Npos (pos_of_int n)
let z_of_int n = if n = 0 then Z0 else if n > 0 then Zpos (pos_of_int n) else Zneg (pos_of_int (-n))

let str_of_tok t = if t = "-" then [] else List.map (fun x -> n_of_int (int_of_string x)) (String.split_on_char ',' t)
let oname_of_tok t = if t = "~" then None else Some (str_of_tok t)

let toks = ref [||]
let pos = ref 0
let next () = let t = !toks.(!pos) in pos := !pos + 1; t
let next_int () = int_of_string (next ())
let rec times n f = if n <= 0 then [] else let x = f () in x :: times (n - 1) f

let val_of_tok t =
  if t = "n" then PNone
  else match t.[0] with
    | 's' -> PStr (str_of_tok (String.sub t 2 (String.length t - 2)))
    | 'i' -> PInt (z_of_int (int_of_string (String.sub t 2 (String.length t - 2))))
    | 'b' -> PBool (t = "b:1")
    | _ -> failwith ("bad val " ^ t)

let read_inst () =
  let name = oname_of_tok (next ()) in
  let oid = oname_of_tok (next ()) in
  let r = match next () with
    | "R0" -> None
    | "R1" -> let d = oname_of_tok (next ()) in let l = oname_of_tok (next ()) in Some (d, l)
    | t -> failwith ("bad ref " ^ t) in
  let p = match next () with
    | "P0" -> None
    | "P1" ->
      let nd = next_int () in
      Some (times nd (fun () ->
          let ni = next_int () in
          times ni (fun () -> let k = str_of_tok (next ()) in let v = val_of_tok (next ()) in (k, v))))
    | t -> failwith ("bad props " ^ t) in
  { i_name = name; i_oid = oid; i_ref = r; i_props = p }

let dir_of_int = function 0 -> DUndef | 1 -> DInout | 2 -> DIn | 3 -> DOut | _ -> failwith "bad dir"

let read_port () =
  let name = oname_of_tok (next ()) in
  let oid = oname_of_tok (next ()) in
  let d = dir_of_int (next_int ()) in
  let arr = (next () = "1") in
  let w = nat_of_int (next_int ()) in
  let lo = z_of_int (next_int ()) in
  { p_name = name; p_oid = oid; p_dir = d; p_array = arr; p_width = w; p_lower = lo }

let read_pin () =
  match next () with
  | "I" -> let q = oname_of_tok (next ()) in let b = nat_of_int (next_int ()) in PIn (q, b)
  | "O" -> let i = oname_of_tok (next ()) in let q = oname_of_tok (next ()) in
    let b = nat_of_int (next_int ()) in POut (i, q, b)
  | "D" -> let i = oname_of_tok (next ()) in let rd = oname_of_tok (next ()) in
    let rl = oname_of_tok (next ()) in let q = oname_of_tok (next ()) in
    let b = nat_of_int (next_int ()) in PDang (i, rd, rl, q, b)
  | "A" -> let rd = oname_of_tok (next ()) in
    let rl = oname_of_tok (next ()) in let q = oname_of_tok (next ()) in
    let b = nat_of_int (next_int ()) in PAnon (rd, rl, q, b)
  | "X" -> PForeign
  | "L" -> PLoose
  | t -> failwith ("bad pin " ^ t)

let read_cable () =
  let name = oname_of_tok (next ()) in
  let oid = oname_of_tok (next ()) in
  let nw = next_int () in
  let ws = times nw (fun () -> let np = next_int () in times np read_pin) in
  { c_name = name; c_oid = oid; c_wires = ws }

let read_def () =
  let name = oname_of_tok (next ()) in
  let oid = oname_of_tok (next ()) in
  let np = next_int () in let ports = times np read_port in
  let nc = next_int () in let cables = times nc read_cable in
  let ni = next_int () in let insts = times ni read_inst in
  { d_name = name; d_oid = oid; d_ports = ports; d_cables = cables; d_insts = insts }

let read_lib () =
  let name = oname_of_tok (next ()) in
  let oid = oname_of_tok (next ()) in
  let nd = next_int () in let defs = times nd read_def in
  { l_name = name; l_oid = oid; l_defs = defs }

let read_nv () =
  (match next () with "N" -> () | t -> failwith ("expected N, got " ^ t));
  let name = oname_of_tok (next ()) in
  let oid = oname_of_tok (next ()) in
  let top = match next () with
    | "T0" -> None
    | "T1" -> Some (read_inst ())
    | t -> failwith ("bad top " ^ t) in
  let nl = next_int () in let libs = times nl read_lib in
  { n_name = name; n_oid = oid; n_top = top; n_libs = libs }

let rec int_of_nat = function O -> 0 | S n -> 1 + int_of_nat n
let rec int_of_pos = function XH -> 1 | XO p -> 2 * int_of_pos p | XI p -> 2 * int_of_pos p + 1
let int_of_n = function N0 -> 0 | Npos p -> int_of_pos p
let tok_of_str s = if s = [] then "-" else String.concat "," (List.map (fun c -> string_of_int (int_of_n c)) s)
let tok_of_oname = function None -> "~" | Some s -> tok_of_str s

let string_of_outcome = function
  | Accept -> "accept" | Reject -> "reject" | StopIter -> "stopiteration" | IndexErr -> "indexerror"
  | KeyErr -> "keyerror" | AttrErr -> "attributeerror" | TypeErr -> "typeerror" | Ill -> "ill"

let () =
  try
    while true do
      let line = input_line stdin in
      if String.trim line <> "" then begin
        toks := Array.of_list (List.filter (fun s -> s <> "") (String.split_on_char ' ' line));
        pos := 0;
        (try
           if !toks.(0) = "K" then begin
             pos := 1;
             let a = read_nv () in
             let buf = Buffer.create 256 in
             Buffer.add_string buf "keys";
             List.iter (fun l -> List.iter (fun d -> List.iter (fun c -> List.iter (fun w -> List.iter (fun k ->
               Buffer.add_char buf ' ';
               (match k with
                | Inl e -> Buffer.add_string buf ("e:" ^ string_of_outcome e)
                | Inr (((o, i), q), b) ->
                  Buffer.add_string buf (Printf.sprintf "k:%d:%s:%s:%s" (if o then 1 else 0)
                                           (tok_of_oname i) (tok_of_oname q)
                                           (match b with None -> "~" | Some n -> string_of_int (int_of_nat n))))) w) c) d) l) (nv_keys a);
             print_endline (Buffer.contents buf)
           end else
           let a = read_nv () in
           let b = read_nv () in
           Printf.printf "%s wf=%d noasg=%d\n" (string_of_outcome (cmp_run a b))
             (if wf_namedb a then 1 else 0) (if no_asgb a then 1 else 0)
         with Failure m -> Printf.printf "error %s\n" m
            | Invalid_argument m -> Printf.printf "error %s\n" m);
        flush stdout
      end
    done
  with End_of_file -> ()
