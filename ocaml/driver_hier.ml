(* MODEL: hier_model *)
(* Line-protocol driver for the extracted `hier` engine (C11 hierarchical references, C12 tracing).
   stdin : `ir` op lines (same parser as driver_ir.ml) rebuild a netlist with the IR model's step;
           lines starting with "q " are queries answered by the extracted kernels of
           coq/theories/Hier/{Enum,Trace}.v on the current state; "reset" starts a new history.
   stdout: one line per input line. Hierarchical references are printed ROOT FIRST
           (instance path from the top instance down, then port/cable, then pin/wire), ids joined
           by '.', references separated by blanks, in the order the model produced them
           (the harness sorts). "FUEL" = the model ran out of fuel (the code would not terminate).
   Trusted glue: parsing, printing, and [freeze] (memoises the total maps of the state so that
   queries do not walk the update chains; it does not change any value). *)
open Hier_model

let rec nat_of_int n = if n <= 0 then O else S (nat_of_int (n - 1))
let rec int_of_nat = function O -> 0 | S n -> 1 + int_of_nat n
let rec pos_of_int n = if n <= 1 then XH else if n land 1 = 0 then XO (pos_of_int (n lsr 1)) else XI (pos_of_int (n lsr 1))
let rec int_of_pos = function XH -> 1 | XO p -> 2 * int_of_pos p | XI p -> 2 * int_of_pos p + 1
let n_of_int n = if n = 0 then N0 else Npos (pos_of_int n)
let int_of_n = function N0 -> 0 | Npos p -> int_of_pos p
let z_of_int n = if n = 0 then Z0 else if n > 0 then Zpos (pos_of_int n) else Zneg (pos_of_int (-n))
let int_of_z = function Z0 -> 0 | Zpos p -> int_of_pos p | Zneg p -> - (int_of_pos p)

(* strings on the wire: "-" = empty, otherwise comma-separated code points; "~" = None *)
let str_of_tok t = if t = "-" then [] else List.map (fun x -> n_of_int (int_of_string x)) (String.split_on_char ',' t)
let tok_of_str s = if s = [] then "-" else String.concat "," (List.map (fun c -> string_of_int (int_of_n c)) s)
let optstr_of_tok t = if t = "~" then None else Some (str_of_tok t)
let optid_of_tok t = if t = "~" then None else Some (nat_of_int (int_of_string t))
let id_of_tok t = nat_of_int (int_of_string t)

let val_of_tok t =
  if t = "n" then VNone
  else match t.[0] with
    | 's' -> VStr (str_of_tok (String.sub t 2 (String.length t - 2)))
    | 'i' -> VInt (z_of_int (int_of_string (String.sub t 2 (String.length t - 2))))
    | 'b' -> VBool (t = "b:1")
    | _ -> failwith ("bad val " ^ t)

let tok_of_val = function
  | VStr s -> "s:" ^ tok_of_str s
  | VInt z -> "i:" ^ string_of_int (int_of_z z)
  | VBool b -> if b then "b:1" else "b:0"
  | VNone -> "n"

let pin_of_tok t =
  if t = "D" then PDet
  else if t.[0] = 'I' then PIn (id_of_tok (String.sub t 1 (String.length t - 1)))
  else match String.split_on_char '.' (String.sub t 1 (String.length t - 1)) with
    | [a; b] -> POut (id_of_tok a, id_of_tok b)
    | _ -> failwith ("bad pin " ^ t)

let tok_of_pin = function
  | PIn i -> "I" ^ string_of_int (int_of_nat i)
  | POut (n, i) -> "O" ^ string_of_int (int_of_nat n) ^ "." ^ string_of_int (int_of_nat i)
  | PDet -> "D"

let kind_of_tok = function
  | "netlist" -> KNetlist | "library" -> KLibrary | "definition" -> KDefinition | "port" -> KPort
  | "cable" -> KCable | "wire" -> KWire | "pin" -> KPin | "instance" -> KInstance
  | t -> failwith ("bad kind " ^ t)
let tok_of_kind = function
  | KNetlist -> "netlist" | KLibrary -> "library" | KDefinition -> "definition" | KPort -> "port"
  | KCable -> "cable" | KWire -> "wire" | KPin -> "pin" | KInstance -> "instance"
let rel_of_tok = function
  | "libs" -> RLibs | "defs" -> RDefs | "ports" -> RPorts | "cables" -> RCables
  | "children" -> RChildren | "pins" -> RPins | "wires" -> RWires
  | t -> failwith ("bad rel " ^ t)
let tok_of_rel = function
  | RLibs -> "libs" | RDefs -> "defs" | RPorts -> "ports" | RCables -> "cables"
  | RChildren -> "children" | RPins -> "pins" | RWires -> "wires"

(* token stream helpers *)
let take_n toks = match toks with
  | c :: rest ->
    let n = int_of_string c in
    let rec go k acc l = if k = 0 then (List.rev acc, l) else match l with x :: l' -> go (k - 1) (x :: acc) l' | [] -> failwith "short list" in
    go n [] rest
  | [] -> failwith "missing count"

let take_props toks = match toks with
  | c :: rest ->
    let n = int_of_string c in
    let rec go k acc l = if k = 0 then (List.rev acc, l) else match l with kk :: vv :: l' -> go (k - 1) ((str_of_tok kk, val_of_tok vv) :: acc) l' | _ -> failwith "short props" in
    go n [] rest
  | [] -> failwith "missing count"

let optnat_of_tok t = if t = "~" then None else Some (nat_of_int (int_of_string t))

let parse_op line : op =
  match String.split_on_char ' ' (String.trim line) with
  | "new" :: k :: nm :: rest -> let (props, _) = take_props rest in ONew (kind_of_tok k, optstr_of_tok nm, props)
  | "create" :: r :: p :: nm :: rest ->
    let (props, rest) = take_props rest in
    (match rest with
     | [items; rf] -> OCreate (rel_of_tok r, id_of_tok p, optstr_of_tok nm, props, nat_of_int (int_of_string items), optid_of_tok rf)
     | _ -> failwith "bad create")
  | [ "items"; r; p; n ] -> OCreateItems (rel_of_tok r, id_of_tok p, nat_of_int (int_of_string n))
  | [ "add"; r; p; c; pos ] -> OAdd (rel_of_tok r, id_of_tok p, id_of_tok c, optnat_of_tok pos)
  | [ "remove"; r; p; c ] -> ORemove (rel_of_tok r, id_of_tok p, id_of_tok c)
  | "removefrom" :: r :: p :: rest -> let (l, _) = take_n rest in ORemoveFrom (rel_of_tok r, id_of_tok p, List.map id_of_tok l)
  | "reorder" :: r :: p :: rest -> let (l, _) = take_n rest in OReorder (rel_of_tok r, id_of_tok p, List.map id_of_tok l)
  | "reorderwire" :: w :: rest -> let (l, _) = take_n rest in OReorderWire (id_of_tok w, List.map pin_of_tok l)
  | [ "connect"; w; p; pos ] -> OConnect (id_of_tok w, pin_of_tok p, optnat_of_tok pos)
  | [ "disconnect"; w; p ] -> ODisconnect (id_of_tok w, pin_of_tok p)
  | "disconnectfrom" :: w :: rest -> let (l, _) = take_n rest in ODisconnectFrom (id_of_tok w, List.map pin_of_tok l)
  | [ "setref"; x; v ] -> OSetReference (id_of_tok x, optid_of_tok v)
  | [ "settop"; n; a ] ->
    let arg = if a = "N" then TopNone
      else if a.[0] = 'I' then TopInst (id_of_tok (String.sub a 1 (String.length a - 1)))
      else TopDef (id_of_tok (String.sub a 1 (String.length a - 1))) in
    OSetTop (id_of_tok n, arg)
  | [ "setname"; e; nm ] -> OSetName (id_of_tok e, optstr_of_tok nm)
  | [ "delname"; e ] -> ODelName (id_of_tok e)
  | [ "dset"; e; k; v ] -> ODSet (id_of_tok e, str_of_tok k, val_of_tok v)
  | [ "ddel"; e; k ] -> ODDel (id_of_tok e, str_of_tok k)
  | [ "dpop"; e; k ] -> ODPop (id_of_tok e, str_of_tok k)
  | [ "downto"; b; v ] -> OSetDownto (id_of_tok b, v = "1")
  | [ "scalar"; b; v ] -> OSetScalar (id_of_tok b, v = "1")
  | [ "lower"; b; v ] -> OSetLower (id_of_tok b, z_of_int (int_of_string v))
  | [ "direction"; p; d ] -> OSetDirection (id_of_tok p, (match d with "0" -> DUndef | "1" -> DInout | "2" -> DIn | _ -> DOut))
  | [ "policy"; p ] -> OSetPolicy (if p = "1" then PolEdif else PolDefault)
  | _ -> failwith ("bad op: " ^ line)


(* ---- printing ---- *)
let sid x = string_of_int (int_of_nat x)
let tok_of_exn = function
  | XAssert -> "assert" | XValue -> "value" | XKey -> "key" | XRuntime -> "runtime" | XType -> "type" | XStuck -> "key"

let shref (h : href) = String.concat "." (List.rev_map sid h)   (* model is leaf first *)
let shrefs = function
  | None -> "FUEL"
  | Some l -> String.concat " " (List.map shref l)
let href_of_tok t : href =
  if t = "-" then [] else List.rev_map (fun x -> nat_of_int (int_of_string x)) (String.split_on_char '.' t)
let sbool b = if b then "1" else "0"
let bool_of_tok t = (t = "1")
let sel_of_tok = function
  | "INSIDE" -> SInside | "OUTSIDE" -> SOutside | "BOTH" -> SBoth | "ALL" -> SAll
  | t -> failwith ("bad selection " ^ t)

(* ---- memoised copy of the state (pure speed-up of the lookups) ---- *)
let memo1 (f : nat -> 'a) : nat -> 'a =
  let t = Hashtbl.create 256 in
  fun x -> let k = int_of_nat x in
    match Hashtbl.find_opt t k with Some v -> v | None -> let v = f x in Hashtbl.add t k v; v
let all_rels = [ RLibs; RDefs; RPorts; RCables; RChildren; RPins; RWires ]
let memo_rel (f : rel -> nat -> 'a) : rel -> nat -> 'a =
  let ms = List.map (fun r -> (r, memo1 (f r))) all_rels in
  fun r -> List.assoc r ms
let freeze (s : state) : state =
  { s with kind_of = memo1 s.kind_of; kids = memo_rel s.kids; par = memo_rel s.par;
           wpins = memo1 s.wpins; ipwire = memo1 s.ipwire; iref = memo1 s.iref; drefs = memo1 s.drefs;
           ipins = memo1 s.ipins; top = memo1 s.top; data = memo1 s.data;
           bscalar = memo1 s.bscalar; blower = memo1 s.blower }

(* per-netlist cache of the closure fuel: pin weight of the universe of hierarchical wires *)
let usum_cache : (int, nat option) Hashtbl.t = Hashtbl.create 4

let usum_of (s : state) (n : nat) : nat option =
  let k = int_of_nat n in
  match Hashtbl.find_opt usum_cache k with
  | Some v -> v
  | None ->
    let v = (match all_hwires s n with Some u -> Some (pin_weight s u) | None -> None) in
    Hashtbl.add usum_cache k v; v

let answer (s : state) (toks : Stdlib.String.t list) : Stdlib.String.t =
  match toks with
  | [ "wf"; n ] ->
    (* the hypotheses of the theorems of Props/C11.v and Props/C12.v, evaluated on this state *)
    "inv1a=" ^ sbool (inv1a_b s) ^ " inv2a=" ^ sbool (inv2a_b s) ^ " kinds=" ^ sbool (wfk_b s)
    ^ " acyclic=" ^ sbool (acyclic_b s) ^ " pinwire=" ^ sbool (wfc_b s)
    ^ " standalone=" ^ sbool (top_standalone_b s (id_of_tok n))
  | [ "enum"; k; n; r ] ->
    let n = id_of_tok n and r = bool_of_tok r in
    shrefs (match k with
        | "inst" -> get_hinstances_netlist s n r
        | "port" -> get_hports_netlist s n r
        | "pin" -> get_hpins_netlist s n r
        | "cable" -> get_hcables_netlist s n r
        | "wire" -> get_hwires_netlist s n r
        | _ -> failwith ("bad enum kind " ^ k))
  | [ "below"; k; r; h ] ->
    let h = href_of_tok h and r = bool_of_tok r in
    if not (is_valid s h) then "" else
    shrefs (match k with
        | "inst" -> hinstances_below s r h
        | "port" -> hports_below s r h
        | "pin" -> hpins_below s r h
        | "cable" -> hcables_below s r h
        | "wire" -> hwires_below s r h
        | _ -> failwith ("bad below kind " ^ k))
  | [ "hrefs"; it ] ->
    let q = if it.[0] = 'O' then
        (match String.split_on_char '.' (String.sub it 1 (String.length it - 1)) with
         | [a; b] -> QOuter (id_of_tok a, id_of_tok b)
         | _ -> failwith ("bad item " ^ it))
      else QId (id_of_tok it) in
    shrefs (hrefs_of_item s q)
  | [ "hrefsin"; n; l ] -> shrefs (hrefs_of_instances_in s (href_of_tok l) (id_of_tok n))
  | [ "valid"; h ] -> sbool (is_valid s (href_of_tok h))
  | [ "unique"; h ] ->
    (match is_unique s (depth_fuel s) (href_of_tok h) with Some b -> sbool b | None -> "FUEL")
  | [ "name"; h ] ->
    (match href_name s (href_of_tok h) with Some nm -> "s:" ^ tok_of_str nm | None -> "!")
  | [ "ipaths"; n ] -> shrefs (all_ipaths s (id_of_tok n))
  | [ "prep"; n ] ->
    (match usum_of s (id_of_tok n) with Some u -> "usum=" ^ sid u | None -> "FUEL")
  | [ "hwires"; n; x; r; h ] ->
    (match usum_of s (id_of_tok n) with
     | None -> "FUEL"
     | Some u -> shrefs (get_hwires s (sel_of_tok x) (bool_of_tok r) u (href_of_tok h)))
  | [ "hcables"; n; x; r; h ] ->
    (match usum_of s (id_of_tok n) with
     | None -> "FUEL"
     | Some u -> shrefs (get_hcables s (sel_of_tok x) (bool_of_tok r) u (href_of_tok h)))
  | [ "hpins"; r; h ] -> shrefs (get_hpins s (bool_of_tok r) (href_of_tok h))
  | "roots" :: fn :: n :: x :: r :: pats :: roots ->
    (* a collection of roots (Hier/TraceRoots.v): H<href> | X<element id> | O<instance>.<inner pin>;
       pats = patterns separated by ';' (is_case=True, is_re=False) *)
    let pats = List.map str_of_tok (String.split_on_char ';' pats) in
    let pat = pat_sel (absolute_b true false) (matches_b true false) pats in
    let dpat = pat_any_of (matches_b true false) pats in
    let root_of_tok t =
      let rest = String.sub t 1 (String.length t - 1) in
      (match t.[0] with
       | 'H' -> RHref (href_of_tok rest)
       | 'X' -> RObj (QId (id_of_tok rest))
       | 'O' -> (match String.split_on_char '.' rest with
           | [a; b] -> RObj (QOuter (id_of_tok a, id_of_tok b))
           | _ -> failwith ("bad root " ^ t))
       | _ -> failwith ("bad root " ^ t)) in
    let roots = List.map root_of_tok roots and r = bool_of_tok r in
    (match fn with
     | "hpins" -> shrefs (get_hpins_roots s r pat dpat roots)
     | "hports" -> shrefs (get_hports_roots s r pat dpat roots)
     | _ ->
       (match usum_of s (id_of_tok n) with
        | None -> "FUEL"
        | Some u ->
          (match fn with
           | "hwires" -> shrefs (get_hwires_roots s (sel_of_tok x) r pat dpat u roots)
           | "hcables" -> shrefs (get_hcables_roots s (sel_of_tok x) r pat dpat u roots)
           | _ -> failwith ("bad roots query " ^ fn))))
  | [ "ordered"; fn; r; pats; h ] ->
    (* one instance reference through the name map: the answer IN YIELD ORDER (Hier/TraceRoots.v, get_ordered) *)
    let k = (match fn with "hwires" -> OWires | "hcables" -> OCables | "hpins" -> OPins | "hports" -> OPorts
                         | _ -> failwith ("bad ordered query " ^ fn)) in
    let pats = List.map str_of_tok (String.split_on_char ';' pats) in
    (match get_ordered s k (bool_of_tok r) (absolute_b true false) (matches_b true false) pats (href_of_tok h) with
     | None -> "FUEL"
     | Some None -> "RAISES"
     | Some (Some l) -> shrefs (Some l))
  | [ "inner"; h ] -> shrefs (Some (match inner_hwire s (href_of_tok h) with Some x -> [x] | None -> []))
  | [ "outer"; h ] -> shrefs (Some (match outer_hwire s (href_of_tok h) with Some x -> [x] | None -> []))
  | _ -> failwith ("bad query: " ^ String.concat " " toks)

(* ---- cross-check of extraction + this file's glue against vm_compute (harness/coq_eval.py) ----
   "qd <query>" answers the same queries as "q <query>", but through the extracted [hanswer]
   (coq/theories/Extract/DigestHier.v) on the plain, un-memoised state, printed in its canonical form:
   rows separated by '|', numbers by '.'; first row 0 = out of fuel, 1 = answered; references LEAF FIRST.
   Only the parsing of ops and queries is hand-written on this path. *)
let hkind_of_tok = function
  | "inst" -> HKInst | "port" -> HKPort | "pin" -> HKPin | "cable" -> HKCable | "wire" -> HKWire
  | t -> failwith ("bad kind " ^ t)
let item_of_tok it =
  if it.[0] = 'O' then
    (match String.split_on_char '.' (String.sub it 1 (String.length it - 1)) with
     | [a; b] -> QOuter (id_of_tok a, id_of_tok b)
     | _ -> failwith ("bad item " ^ it))
  else QId (id_of_tok it)
let parse_hq (toks : Stdlib.String.t list) : hq =
  match toks with
  | [ "wf"; n ] -> HWf (id_of_tok n)
  | [ "enum"; k; n; r ] -> HEnum (hkind_of_tok k, id_of_tok n, bool_of_tok r)
  | [ "below"; k; r; h ] -> HBelow (hkind_of_tok k, bool_of_tok r, href_of_tok h)
  | [ "hrefs"; it ] -> HHrefs (item_of_tok it)
  | [ "hrefsin"; n; l ] -> HHrefsIn (id_of_tok n, href_of_tok l)
  | [ "valid"; h ] -> HValid (href_of_tok h)
  | [ "unique"; h ] -> HUnique (href_of_tok h)
  | [ "name"; h ] -> HName (href_of_tok h)
  | [ "ipaths"; n ] -> HIpaths (id_of_tok n)
  | [ "prep"; n ] -> HPrep (id_of_tok n)
  | [ "hwires"; n; x; r; h ] -> HHwires (id_of_tok n, sel_of_tok x, bool_of_tok r, href_of_tok h)
  | [ "hcables"; n; x; r; h ] -> HHcables (id_of_tok n, sel_of_tok x, bool_of_tok r, href_of_tok h)
  | [ "hpins"; r; h ] -> HHpins (bool_of_tok r, href_of_tok h)
  | [ "inner"; h ] -> HInner (href_of_tok h)
  | [ "outer"; h ] -> HOuter (href_of_tok h)
  | [ "ordered"; fn; r; pats; h ] ->
    let k = (match fn with "hwires" -> OWires | "hcables" -> OCables | "hpins" -> OPins | "hports" -> OPorts
                         | _ -> failwith ("bad ordered query " ^ fn)) in
    HOrdered (k, bool_of_tok r, List.map str_of_tok (String.split_on_char ';' pats), href_of_tok h)
  | "roots" :: fn :: n :: x :: r :: pats :: roots ->
    let k = (match fn with "hwires" -> HKWire | "hcables" -> HKCable | "hpins" -> HKPin | "hports" -> HKPort
                         | _ -> failwith ("bad roots query " ^ fn)) in
    let root_of_tok t =
      let rest = String.sub t 1 (String.length t - 1) in
      (match t.[0] with
       | 'H' -> RHref (href_of_tok rest)
       | 'X' -> RObj (QId (id_of_tok rest))
       | 'O' -> (match String.split_on_char '.' rest with
           | [a; b] -> RObj (QOuter (id_of_tok a, id_of_tok b))
           | _ -> failwith ("bad root " ^ t))
       | _ -> failwith ("bad root " ^ t)) in
    HRoots (k, id_of_tok n, sel_of_tok x, bool_of_tok r, List.map str_of_tok (String.split_on_char ';' pats),
            List.map root_of_tok roots)
  | _ -> failwith ("bad query: " ^ String.concat " " toks)
let srows (l : n list list) =
  String.concat "|" (List.map (fun r -> String.concat "." (List.map (fun x -> string_of_int (int_of_n x)) r)) l)

let () =
  let st = ref init in
  let frozen : state option ref = ref None in
  let invalidate () = frozen := None; Hashtbl.reset usum_cache in
  try
    while true do
      let line = String.trim (input_line stdin) in
      if line = "reset" then (st := init; invalidate (); print_endline "reset")
      else if line = "" then ()
      else if String.length line > 3 && String.sub line 0 3 = "qd " then begin
        let toks = List.filter (fun t -> t <> "") (String.split_on_char ' ' (String.sub line 3 (String.length line - 3))) in
        print_endline (try srows (hanswer !st (parse_hq toks)) with Failure m -> "ERROR " ^ m)
      end
      else if String.length line > 2 && String.sub line 0 2 = "q " then begin
        let s = (match !frozen with Some s -> s | None -> let s = freeze !st in frozen := Some s; s) in
        let toks = List.filter (fun t -> t <> "") (String.split_on_char ' ' (String.sub line 2 (String.length line - 2))) in
        print_endline (try answer s toks with Failure m -> "ERROR " ^ m)
      end else begin
        let o = parse_op line in
        let s0 = { !st with log = [] } in
        let (s1, out) = step s0 o in
        st := s1; invalidate ();
        print_endline (match out with None -> "ok" | Some x -> tok_of_exn x)
      end
    done
  with End_of_file -> ()
