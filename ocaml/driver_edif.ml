(* MODEL: edif_model *)
(* Line-protocol driver for the extracted EDIF mechanism models (engine "edif", C03/C05).
   stdin : one command per line, space separated; stdout: one answer line per command.
   Strings on the wire: "-" = empty, otherwise comma separated code points. Big naturals are
   sent as binary digit strings ("b1011") so that no model function is needed to read them.
   Trusted glue: parsing and printing only.

   topo   <n> o1..on <m> (node k d1..dk)*m         -> ok o1 .. | none
   tok    <str>                                    -> k t1 .. tk
   print  <sexp>                                   -> <okflag> <str>       sexp: A <str> | S <str> | L <n> items
   read   <k> t1..tk                               -> none | <sexp>
   lexrt  <sexp>                                   -> <okflag> same|diff
   sepb   <str>                                    -> raise | none <str> | some <dec> <str>
   sepu   <str>                                    -> none <str> | some <dec> <str>
   netbit <ident> <name>                           -> raise | (none|some <dec>) <nshort> <eshort>
   dec    b<bits>                                  -> <str>
   intof  <str>                                    -> b<bits>
   bitnames <ident> <name> b<bits>                 -> <ident_i_> <name[i]>
   mbseq  <k> (idx|~ npins p..)*k                  -> steps (c|s)*k then final cable | none
   asm    <k> (idx npins p..)*k                    -> cable | none
   member <npins> p.. <haswire 0/1 per pin> <p>    -> outer <k> i.. inner (none|i)
   emit   <ident> <name> <lower> <array> <nw> (npins p..)*nw -> <k> (ident name npins p..)*k
   readc  <k> (ident name npins p..)*k             -> none | <nshort> <eshort> cable
   readnets <k> (ident name npins p..)*k            -> none | <m> (name ident cable)*m      whole cell
   emitnets <m> (name ident lower array nw (npins p..)*nw)*m -> <k> (ident name npins p..)*k
   file   <str>                                    -> err <reason> | ok <json>       whole file: EdifFile.elab_text
   emitfile <nts> ts.. <prog> <floats> <file>               -> raises | unsupported | ok <rt 0..5> <ordered 0/1> <prepass f = Some f 0/1> <writable 0/1> <sexp>    whole file: EdifEmit.emit_file
            floats: <n> (lib cell inst <nprops> xprop..)*n, xprop = prop | ident (~|orig) n <neg 0/1> <digits> <exp>
            prog: ~ | <str> (~|<str>);  file: name ident <nlibs> lib.. (~ | name ident lib cell)
            lib: name ident <ncells> cell..;  cell: name ident <np> port.. <ni> inst.. <nc> cab..
            port: name ident dir width array;  inst: name ident (~ | lib cell) <nprops> prop..
            prop: ident (~|orig) (i <decimal> | s <str> | b 0/1);  cab: name ident lower array <nw> (npins pin..)*nw
            pin: t port k | i inst port k.   rt = EdifEmit.rt_status (0: read back as norm_file n)
   prepass <file>                                  -> none | ok <json>               EdifEmit.prepass
   cable printed as: <lower> <array 0/1> <nw> (npins p..)*nw
   json of the whole-file result: strings are arrays of code points; a pin is ["t",port,k] or
   ["i",instance,port,k] (identifiers); integers of properties are decimal strings *)
open Edif_model

let rec nat_of_int n = if n <= 0 then O else S (nat_of_int (n - 1))
let rec int_of_nat = function O -> 0 | S n -> 1 + int_of_nat n
let rec pos_of_int n = if n <= 1 then XH else if n land 1 = 0 then XO (pos_of_int (n lsr 1)) else XI (pos_of_int (n lsr 1))
let rec int_of_pos = function XH -> 1 | XO p -> 2 * int_of_pos p | XI p -> 2 * int_of_pos p + 1
let n_of_int n = if n = 0 then N0 else Npos (pos_of_int n)
let int_of_n = function N0 -> 0 | Npos p -> int_of_pos p

(* binary strings, most significant digit first: "b0", "b1011" *)
let n_of_bits s =
  let len = String.length s in
  let rec go i acc = (* acc : positive option *)
    if i >= len then acc
    else
      let d = s.[i] = '1' in
      let acc' = match acc with
        | None -> if d then Some XH else None
        | Some p -> Some (if d then XI p else XO p) in
      go (i + 1) acc' in
  match go 1 None with None -> N0 | Some p -> Npos p
let bits_of_n = function
  | N0 -> "b0"
  | Npos p ->
    let rec go p acc = match p with
      | XH -> "1" ^ acc
      | XO q -> go q ("0" ^ acc)
      | XI q -> go q ("1" ^ acc) in
    "b" ^ go p ""
(* decimal rendering of an N for small values only (indices on the wire) *)
let dec_small n = string_of_int (int_of_n n)

let str_of_tok t = if t = "-" then [] else List.map (fun x -> n_of_int (int_of_string x)) (String.split_on_char ',' t)
let tok_of_str s = if s = [] then "-" else String.concat "," (List.map (fun c -> string_of_int (int_of_n c)) s)

let take_list f toks = match toks with
  | c :: rest ->
    let n = int_of_string c in
    let rec go k acc l = if k = 0 then (List.rev acc, l) else (let (x, l') = f l in go (k - 1) (x :: acc) l') in
    go n [] rest
  | [] -> failwith "missing count"
let one_int = function x :: l -> (int_of_string x, l) | [] -> failwith "short"
let one_tok = function x :: l -> (x, l) | [] -> failwith "short"

let rec parse_sexp toks = match toks with
  | "A" :: s :: rest -> (Atom (str_of_tok s), rest)
  | "S" :: s :: rest -> (Str (str_of_tok s), rest)
  | "L" :: rest -> let (items, rest') = take_list parse_sexp rest in (SList items, rest')
  | _ -> failwith "bad sexp"
let rec show_sexp = function
  | Atom a -> "A " ^ tok_of_str a
  | Str s -> "S " ^ tok_of_str s
  | SList l -> String.concat " " (("L " ^ string_of_int (List.length l)) :: List.map show_sexp l)

let show_cab c =
  String.concat " " ([dec_small c.c_lower; (if c.c_array then "1" else "0"); string_of_int (List.length c.c_wires)]
    @ List.concat_map (fun w -> string_of_int (List.length w) :: List.map string_of_int w) c.c_wires)

let idx_opt t = if t = "~" then None else Some (n_of_int (int_of_string t))
let parse_bit toks = match toks with
  | i :: rest -> let (pins, rest') = take_list one_int rest in ((i, pins), rest')
  | [] -> failwith "short bit"
let parse_net toks = match toks with
  | ident :: name :: rest -> let (pins, rest') = take_list one_int rest in (((str_of_tok ident, str_of_tok name), pins), rest')
  | _ -> failwith "short net"
let show_net ((ident, name), pins) =
  String.concat " " ([tok_of_str ident; tok_of_str name; string_of_int (List.length pins)] @ List.map string_of_int pins)

(* ---- whole-file model (Fmt/EdifFile.v) ---- *)
(* decimal digits of a positive, by doubling over the bits (most significant first) *)
let dec_of_pos p =
  let rec bits p acc = match p with XH -> true :: acc | XO q -> bits q (false :: acc) | XI q -> bits q (true :: acc) in
  let digits = ref [0] in   (* least significant first *)
  List.iter (fun b ->
      let carry = ref (if b then 1 else 0) in
      digits := List.map (fun d -> let v = 2 * d + !carry in carry := v / 10; v mod 10) !digits;
      if !carry > 0 then digits := !digits @ [!carry]) (bits p []);
  String.concat "" (List.rev_map string_of_int !digits)
let dec_of_z = function Z0 -> "0" | Zpos p -> dec_of_pos p | Zneg p -> "-" ^ dec_of_pos p

let js s = "[" ^ String.concat "," (List.map (fun c -> string_of_int (int_of_n c)) s) ^ "]"
let jopt f = function None -> "null" | Some x -> f x
let jlist f l = "[" ^ String.concat "," (List.map f l) ^ "]"
let jbool b = if b then "1" else "0"
let jpin = function
  | PTop (p, k) -> "[\"t\"," ^ js p ^ "," ^ dec_small k ^ "]"
  | PInst (i, p, k) -> "[\"i\"," ^ js i ^ "," ^ js p ^ "," ^ dec_small k ^ "]"
let jval = function
  | PVInt z -> "[\"int\",\"" ^ dec_of_z z ^ "\"]"
  | PVStr s -> "[\"str\"," ^ js s ^ "]"
  | PVBool b -> "[\"bool\"," ^ jbool b ^ "]"
let jprop p = "{\"ident\":" ^ js p.pr_ident ^ ",\"orig\":" ^ jopt js p.pr_orig ^ ",\"val\":" ^ jval p.pr_val ^ "}"
let jport p = "{\"name\":" ^ js p.po_name ^ ",\"ident\":" ^ js p.po_ident ^ ",\"dir\":" ^ dec_small p.po_dir
              ^ ",\"width\":" ^ dec_small p.po_width ^ ",\"array\":" ^ jbool p.po_array ^ "}"
let jinst i = "{\"name\":" ^ js i.in_name ^ ",\"ident\":" ^ js i.in_ident ^ ",\"ref\":"
              ^ jopt (fun (l, c) -> "[" ^ js l ^ "," ^ js c ^ "]") i.in_ref ^ ",\"props\":" ^ jlist jprop i.in_props ^ "}"
let jcab ((nm, idt), c) = "{\"name\":" ^ js nm ^ ",\"ident\":" ^ js idt ^ ",\"lower\":" ^ dec_small c.c_lower
                          ^ ",\"array\":" ^ jbool c.c_array ^ ",\"wires\":" ^ jlist (jlist jpin) c.c_wires ^ "}"
let jcell c = "{\"name\":" ^ js c.ce_name ^ ",\"ident\":" ^ js c.ce_ident ^ ",\"view\":" ^ jopt js c.ce_view
              ^ ",\"ports\":" ^ jlist jport c.ce_ports ^ ",\"insts\":" ^ jlist jinst c.ce_insts
              ^ ",\"cabs\":" ^ jlist jcab c.ce_cabs ^ "}"
let jlib l = "{\"name\":" ^ js l.li_name ^ ",\"ident\":" ^ js l.li_ident ^ ",\"cells\":" ^ jlist jcell l.li_cells ^ "}"
let jtop t = "{\"name\":" ^ js t.tp_name ^ ",\"ident\":" ^ js t.tp_ident ^ ",\"lib\":" ^ js t.tp_lib ^ ",\"cell\":" ^ js t.tp_cell ^ "}"
let jfile f = "{\"name\":" ^ js f.nf_name ^ ",\"ident\":" ^ js f.nf_ident ^ ",\"libs\":" ^ jlist jlib f.nf_libs
              ^ ",\"top\":" ^ jopt jtop f.nf_top ^ "}"
let ferr_name = function
  | FeLex -> "lex" | FeEof -> "eof" | FeShape -> "shape" | FeMultiple -> "multiple" | FeNotImpl -> "notimpl"
  | FeIllegalId -> "illegal-identifier" | FeDupSibling -> "duplicate-sibling" | FeUndeclared -> "undeclared"
  | FeIndex -> "index" | FeJoinedTwice -> "joined-twice" | FeNoRef -> "no-reference" | FeNetName -> "net-name"
  | FeUnsupported -> "unsupported"

(* ---- whole-file writer model (Fmt/EdifEmit.v) ---- *)
let n_of_dec s =
  let ten = n_of_int 10 in
  let acc = ref N0 in
  String.iter (fun ch -> acc := N.add (N.mul ten !acc) (n_of_int (Char.code ch - 48))) s; !acc
let z_of_dec s =
  let neg = String.length s > 0 && s.[0] = '-' in
  let body = if neg then String.sub s 1 (String.length s - 1) else s in
  match n_of_dec body with N0 -> Z0 | Npos p -> if neg then Zneg p else Zpos p
let one_str = function x :: l -> (str_of_tok x, l) | [] -> failwith "short"
let one_n = function x :: l -> (n_of_dec x, l) | [] -> failwith "short"
let one_bool = function x :: l -> (x = "1", l) | [] -> failwith "short"
let opt_of f = function "~" :: l -> (None, l) | l -> let (x, l') = f l in (Some x, l')
let p_prop l =
  let (idt, l) = one_str l in
  let (orig, l) = opt_of one_str l in
  match l with
  | "i" :: z :: l -> ({ pr_ident = idt; pr_orig = orig; pr_val = PVInt (z_of_dec z) }, l)
  | "s" :: v :: l -> ({ pr_ident = idt; pr_orig = orig; pr_val = PVStr (str_of_tok v) }, l)
  | "b" :: b :: l -> ({ pr_ident = idt; pr_orig = orig; pr_val = PVBool (b = "1") }, l)
  | _ -> failwith "bad property value"
let p_port l =
  let (nm, l) = one_str l in let (idt, l) = one_str l in let (d, l) = one_n l in
  let (w, l) = one_n l in let (a, l) = one_bool l in
  ({ po_name = nm; po_ident = idt; po_dir = d; po_width = w; po_array = a }, l)
let p_inst l =
  let (nm, l) = one_str l in let (idt, l) = one_str l in
  let (r, l) = opt_of (fun l -> let (a, l) = one_str l in let (b, l) = one_str l in ((a, b), l)) l in
  let (ps, l) = take_list p_prop l in
  ({ in_name = nm; in_ident = idt; in_ref = r; in_props = ps }, l)
let p_pin = function
  | "t" :: p :: k :: l -> (PTop (str_of_tok p, n_of_dec k), l)
  | "i" :: i :: p :: k :: l -> (PInst (str_of_tok i, str_of_tok p, n_of_dec k), l)
  | _ -> failwith "bad pin"
let p_cab l =
  let (nm, l) = one_str l in let (idt, l) = one_str l in let (lo, l) = one_n l in let (a, l) = one_bool l in
  let (ws, l) = take_list (fun l -> take_list p_pin l) l in
  (((nm, idt), { c_lower = lo; c_array = a; c_wires = ws }), l)
let p_cell l =
  let (nm, l) = one_str l in let (idt, l) = one_str l in
  let (ports, l) = take_list p_port l in let (insts, l) = take_list p_inst l in let (cabs, l) = take_list p_cab l in
  ({ ce_name = nm; ce_ident = idt; ce_view = None; ce_ports = ports; ce_insts = insts; ce_cabs = cabs }, l)
let p_lib l =
  let (nm, l) = one_str l in let (idt, l) = one_str l in let (cells, l) = take_list p_cell l in
  ({ li_name = nm; li_ident = idt; li_cells = cells }, l)
let p_top l =
  let (nm, l) = one_str l in let (idt, l) = one_str l in let (lb, l) = one_str l in let (c, l) = one_str l in
  ({ tp_name = nm; tp_ident = idt; tp_lib = lb; tp_cell = c }, l)
let p_file l =
  let (nm, l) = one_str l in let (idt, l) = one_str l in let (libs, l) = take_list p_lib l in
  let (top, l) = opt_of p_top l in
  ({ nf_name = nm; nf_ident = idt; nf_libs = libs; nf_top = top }, l)
let p_xprop l =
  let (idt, l) = one_str l in
  let (orig, l) = opt_of one_str l in
  match l with
  | "n" :: neg :: digits :: e :: l -> ({ xp_ident = idt; xp_orig = orig; xp_val = XNum (neg = "1", n_of_dec digits, z_of_dec e) }, l)
  | "i" :: z :: l -> ({ xp_ident = idt; xp_orig = orig; xp_val = XV (PVInt (z_of_dec z)) }, l)
  | "s" :: v :: l -> ({ xp_ident = idt; xp_orig = orig; xp_val = XV (PVStr (str_of_tok v)) }, l)
  | "b" :: b :: l -> ({ xp_ident = idt; xp_orig = orig; xp_val = XV (PVBool (b = "1")) }, l)
  | _ -> failwith "bad x property value"
let p_floats l =
  take_list (fun l ->
      let (lb, l) = one_str l in let (c, l) = one_str l in let (i, l) = one_str l in
      let (xs, l) = take_list p_xprop l in
      ((((lb, c), i), xs), l)) l
let p_prog l = opt_of (fun l -> let (p, l) = one_str l in let (v, l) = opt_of one_str l in ((p, v), l)) l

let handle line =
  match String.split_on_char ' ' line with
  | "emitfile" :: rest ->
    let (ts, rest) = take_list one_str rest in
    let (prog, rest) = p_prog rest in
    let (fl, rest) = p_floats rest in
    let (f, _) = p_file rest in
    (match emit_file ts prog fl f with
     | EmRaises -> "raises"
     | EmUnsupported -> "unsupported"
     | EmOk d ->
       let fix = (match prepass f with Some g -> file_eqb g f | None -> false) in
       "ok " ^ dec_small (rt_status ts prog fl f) ^ " " ^ jbool (ordered f) ^ " " ^ jbool fix ^ " " ^ jbool (writable f && params_w ts prog && fl = []) ^ " " ^ show_sexp d)
  | "prepass" :: rest ->
    let (f, _) = p_file rest in
    (match prepass f with None -> "none" | Some g -> "ok " ^ jfile g)
  | ["file"; s] ->
    (match elab_text (str_of_tok s) with
     | Err e -> "err " ^ ferr_name e
     | Ok f -> "ok " ^ jfile f)
  | "topo" :: rest ->
    let (objs, rest) = take_list one_int rest in
    let (adj, _) = take_list (fun l -> match l with
        | node :: l' -> let (ds, l'') = take_list one_int l' in ((nat_of_int (int_of_string node), List.map nat_of_int ds), l'')
        | [] -> failwith "short adj") rest in
    (match topological_sort (deps_of adj) (List.map nat_of_int objs) with
     | None -> "none"
     | Some out -> String.concat " " ("ok" :: List.map (fun o -> string_of_int (int_of_nat o)) out))
  | ["tok"; s] ->
    let ts = tokenize (str_of_tok s) in
    String.concat " " (string_of_int (List.length ts) :: List.map tok_of_str ts)
  | "print" :: rest ->
    let (x, _) = parse_sexp rest in
    (if sexp_ok x then "1 " else "0 ") ^ tok_of_str (print x)
  | "flat" :: rest ->
    let (x, _) = parse_sexp rest in
    let ts = flatten x in
    String.concat " " (string_of_int (List.length ts) :: List.map tok_of_str ts)
  | "read" :: rest ->
    let (ts, _) = take_list one_tok rest in
    (match read (List.map str_of_tok ts) with None -> "none" | Some x -> show_sexp x)
  | "lexrt" :: rest ->
    let (x, _) = parse_sexp rest in
    (if sexp_ok x then "1 " else "0 ") ^
    (match read (tokenize (print x)) with Some y when y = x -> "same" | _ -> "diff")
  | ["sepb"; s] ->
    (match sep_bracket (str_of_tok s) with
     | None -> "raise"
     | Some (None, sh) -> "none " ^ tok_of_str sh
     | Some (Some i, sh) -> "some " ^ tok_of_str (dec i) ^ " " ^ tok_of_str sh)
  | ["sepu"; s] ->
    (match sep_underscore (str_of_tok s) with
     | (None, sh) -> "none " ^ tok_of_str sh
     | (Some i, sh) -> "some " ^ tok_of_str (dec i) ^ " " ^ tok_of_str sh)
  | ["netbit"; a; b] ->
    (match net_bit (str_of_tok a) (str_of_tok b) with
     | None -> "raise"
     | Some ((idx, ns), es) ->
       (match idx with None -> "none" | Some i -> "some " ^ tok_of_str (dec i)) ^ " " ^ tok_of_str ns ^ " " ^ tok_of_str es)
  | ["dec"; b] -> tok_of_str (dec (n_of_bits b))
  | ["intof"; s] -> bits_of_n (int_of (str_of_tok s))
  | ["bitnames"; a; b; i] ->
    let i = n_of_bits i in
    tok_of_str (bit_ident (str_of_tok a) i) ^ " " ^ tok_of_str (bit_name (str_of_tok b) i)
  | "mbseq" :: rest ->
    let (bits, _) = take_list parse_bit rest in
    let (steps, final) = List.fold_left (fun (steps, cur) (i, pins) ->
        match mb_add cur (idx_opt i) pins with
        | MbCable c -> ("c" :: steps, Some c)
        | MbSeparate -> ("s" :: steps, cur)) ([], None) bits in
    String.concat " " (List.rev steps) ^ " | " ^ (match final with None -> "none" | Some c -> show_cab c)
  | "asm" :: rest ->
    let (bits, _) = take_list parse_bit rest in
    (match assemble (List.map (fun (i, p) -> (n_of_int (int_of_string i), p)) bits) with
     | None -> "none" | Some c -> show_cab c)
  | "member" :: rest ->
    let (pins, rest) = take_list one_int rest in
    let n = List.length pins in
    let rec split k l acc = if k = 0 then (List.rev acc, l) else (match l with x :: l' -> split (k - 1) l' (x :: acc) | [] -> failwith "short") in
    let (hw, rest) = split n rest [] in
    let p = (match rest with [x] -> int_of_string x | _ -> failwith "member arg") in
    let tbl = List.combine pins (List.map (fun x -> x = "1") hw) in
    let haswire q = (try List.assoc (int_of_nat q) tbl with Not_found -> false) in
    let pins' = List.map nat_of_int pins in
    let outer = member_outer pins' (nat_of_int p) in
    "outer " ^ String.concat " " (string_of_int (List.length outer) :: List.map (fun k -> string_of_int (int_of_nat k)) outer)
    ^ " inner " ^ (match member_inner haswire pins' (nat_of_int p) with None -> "none" | Some k ->
        let k' = int_of_nat k in
        string_of_int k' ^ " reads " ^ (match member_read pins' k with None -> "none" | Some q -> string_of_int (int_of_nat q)))
  | "emit" :: ident :: name :: lower :: arr :: rest ->
    let (wires, _) = take_list (fun l -> take_list one_int l) rest in
    let c = { c_lower = n_of_int (int_of_string lower); c_array = (arr = "1"); c_wires = wires } in
    let nets = emit_cable (str_of_tok ident) (str_of_tok name) c in
    String.concat " " (string_of_int (List.length nets) :: List.map show_net nets)
  | "readc" :: rest ->
    let (nets, _) = take_list parse_net rest in
    (match read_cable nets with
     | None -> "none"
     | Some ((ns, es), c) -> tok_of_str ns ^ " " ^ tok_of_str es ^ " " ^ show_cab c)
  | "readnets" :: rest ->
    let (nets, _) = take_list parse_net rest in
    (match read_nets [] nets with
     | None -> "none"
     | Some st -> String.concat " " (string_of_int (List.length st) ::
         List.map (fun ((nm, idt), c) -> tok_of_str nm ^ " " ^ tok_of_str idt ^ " " ^ show_cab c) st))
  | "emitnets" :: rest ->
    let (cabs, _) = take_list (fun l -> match l with
        | nm :: idt :: lower :: arr :: l' ->
          let (wires, l'') = take_list (fun l -> take_list one_int l) l' in
          (((str_of_tok nm, str_of_tok idt), { c_lower = n_of_int (int_of_string lower); c_array = (arr = "1"); c_wires = wires }), l'')
        | _ -> failwith "short cable") rest in
    let nets = emit_nets cabs in
    String.concat " " (string_of_int (List.length nets) :: List.map show_net nets)
  | _ -> "error unknown command"

let () =
  try
    while true do
      let line = input_line stdin in
      (try print_endline (handle line) with
       | Failure m -> print_endline ("error " ^ m)
       | Not_found -> print_endline "error not_found"
       | Invalid_argument m -> print_endline ("error " ^ m));
      Stdlib.flush Stdlib.stdout
    done
  with End_of_file -> ()
