(* MODEL: verilog_model *)
(* Line-protocol driver for the extracted Verilog mechanism models (engine "verilog").
   stdin: one command per line (see harness/verilog_mech.py); stdout: one answer line per command.
   Trusted glue: parsing and printing only. "~" = None. Cables are numbered 0.. and printed c0, c1, ... *)
open Verilog_model

let rec nat_of_int n = if n <= 0 then O else S (nat_of_int (n - 1))
let rec int_of_nat = function O -> 0 | S n -> 1 + int_of_nat n
let rec pos_of_int n = if n <= 1 then XH else if n land 1 = 0 then XO (pos_of_int (n lsr 1)) else XI (pos_of_int (n lsr 1))
let rec int_of_pos = function XH -> 1 | XO p -> 2 * int_of_pos p | XI p -> 2 * int_of_pos p + 1
let z_of_int n = if n = 0 then Z0 else if n > 0 then Zpos (pos_of_int n) else Zneg (pos_of_int (-n))
let int_of_z = function Z0 -> 0 | Zpos p -> int_of_pos p | Zneg p -> - (int_of_pos p)

let optz t = if t = "~" then None else Some (z_of_int (int_of_string t))
let boolt t = (t = "1")

let wire_of_tok t =
  if t = "~" then None
  else match String.split_on_char ':' t with
    | [c; i] -> Some (nat_of_int (int_of_string c), z_of_int (int_of_string i))
    | _ -> failwith ("bad wire " ^ t)

let tok_of_wire (c, i) = Printf.sprintf "%d:%d" (int_of_nat c) (int_of_z i)
let wires_str ws = String.concat " " (List.map tok_of_wire ws)

let brk_str c b =
  let n = "c" ^ string_of_int (int_of_nat c) in
  match b with
  | BNone -> n
  | BIdx i -> Printf.sprintf "%s[%d]" n (int_of_z i)
  | BRange (h, l) -> Printf.sprintf "%s[%d:%d]" n (int_of_z h) (int_of_z l)

let brk_only = function
  | None -> "assert"
  | Some BNone -> "none"
  | Some (BIdx i) -> Printf.sprintf "idx %d" (int_of_z i)
  | Some (BRange (h, l)) -> Printf.sprintf "range %d %d" (int_of_z h) (int_of_z l)

(* take k (lo, n) pairs: the environment *)
let take_env toks =
  match toks with
  | k :: rest ->
    let k = int_of_string k in
    let rec go j acc l = if j = 0 then (List.rev acc, l) else match l with
        | lo :: n :: l' -> go (j - 1) ((z_of_int (int_of_string lo), nat_of_int (int_of_string n)) :: acc) l'
        | _ -> failwith "short env" in
    let (tbl, rest) = go k [] rest in
    let arr = Array.of_list tbl in
    let e c = let i = int_of_nat c in if i < Array.length arr then arr.(i) else (Z0, S O) in
    (e, rest)
  | [] -> failwith "missing env"

let take_n toks =
  match toks with
  | c :: rest ->
    let n = int_of_string c in
    let rec go k acc l = if k = 0 then (List.rev acc, l) else match l with x :: l' -> go (k - 1) (x :: acc) l' | [] -> failwith "short list" in
    go n [] rest
  | [] -> failwith "missing count"

let atom_of toks = match toks with
  | "id" :: c :: r -> (AId (nat_of_int (int_of_string c)), r)
  | "bit" :: c :: i :: r -> (ABit (nat_of_int (int_of_string c), z_of_int (int_of_string i)), r)
  | "part" :: c :: h :: l :: r -> (APart (nat_of_int (int_of_string c), z_of_int (int_of_string h), z_of_int (int_of_string l)), r)
  | _ -> failwith "bad atom"

let expr_of toks = match toks with
  | "cat" :: m :: r ->
    let m = int_of_string m in
    let rec go k acc l = if k = 0 then (List.rev acc, l) else let (a, l') = atom_of l in go (k - 1) (a :: acc) l' in
    let (atoms, r') = go m [] r in (ECat atoms, r')
  | _ -> let (a, r) = atom_of toks in (EAtom a, r)

let bundle_str b = Printf.sprintf "%d:%s" (int_of_z b.b_lo) (String.concat "," (List.map (fun x -> string_of_int (int_of_nat x)) b.b_items))

let handle line =
  let toks = List.filter (fun s -> s <> "") (String.split_on_char ' ' line) in
  match toks with
  | ["GW"; lo; n; l; r] ->
    let n = int_of_string n in
    let ws = List.init n (fun i -> i) in
    (match get_wires (z_of_int (int_of_string lo)) ws (optz l) (optz r) with
     | Some t -> "ok " ^ String.concat " " (List.map string_of_int t)
     | None -> "indexerror")
  | ["BR"; lo; w; l; h] -> brk_only (write_brackets (z_of_int (int_of_string lo)) (z_of_int (int_of_string w)) (optz l) (optz h))
  | ["DECL"; lo; w] -> brk_only (write_decl (z_of_int (int_of_string lo)) (z_of_int (int_of_string w)))
  | ["POP"; l; r] -> let (lo, w) = populate (optz l) (optz r) in Printf.sprintf "%d %d" (int_of_z lo) (int_of_z w)
  | "CONCAT" :: rest ->
    let (e, rest) = take_env rest in
    let (ws, _) = take_n rest in
    let ws = List.map wire_of_tok ws in
    (match write_concat e ws with
     | None -> "assert"
     | Some t ->
       let txt = String.concat "," (List.map (fun (c, b) -> brk_str c b) t) in
       let back = match read_concat e t with Some w -> wires_str w | None -> "error" in
       txt ^ " | " ^ back)
  | "ALIGN" :: rest ->
    let (pins, rest) = take_n rest in
    let nw = int_of_string (List.hd rest) in
    let pins = List.map int_of_string pins in
    let ws = List.init nw (fun i -> i) in
    (match align (fun p -> z_of_int p) pins ws with
     | None -> "assert"
     | Some calls -> String.concat " " (List.map (fun (w, p) -> Printf.sprintf "%d>%d" w p) calls))
  | "UPD" :: kind :: l0 :: r0 :: rest ->
    let b0 = new_bundle (optz l0) (optz r0) O in
    let f = if kind = "port" then update_port else update_cable in
    let rec go b toks acc = match toks with
      | l :: r :: d :: more -> let b' = f (optz l) (optz r) (boolt d) b in go b' more (bundle_str b' :: acc)
      | _ -> List.rev acc in
    String.concat " | " (bundle_str b0 :: go b0 rest [])
  | "ISCAT" :: name :: rest ->
    let (ws, _) = take_n rest in
    let nm = if name = "~" then None else Some (nat_of_int (int_of_string name)) in
    if is_pinset_concatenated nm (List.map wire_of_tok ws) then "1" else "0"
  | "PORT" :: rest ->
    let (e, rest) = take_env rest in
    let (ws, _) = take_n rest in
    let ws = List.map wire_of_tok ws in
    (match emit_port e ws with
     | None -> "assert"
     | Some t ->
       let txt = match t with
         | PEmpty -> "empty"
         | PPlain (c, b) -> "plain " ^ brk_str c b
         | PConcat l -> "cat " ^ String.concat "," (List.map (fun (c, b) -> brk_str c b) l) in
       let back = match read_port e t with Some w -> wires_str w | None -> "error" in
       txt ^ " | " ^ back)
  | "EXPR" :: rest ->
    let (e, rest) = take_env rest in
    let (x, _) = expr_of rest in
    let r = match reader_expr e x with Some w -> "ok " ^ wires_str w | None -> "error" in
    r ^ " | " ^ wires_str (expr_bits e x)
  | "ELECT" :: rest ->
    (* ELECT k  then per module: name cell(0/1) n inst... *)
    let k = int_of_string (List.hd rest) in
    let rec mods j toks acc = if j = 0 then List.rev acc else match toks with
        | name :: cell :: more ->
          let (insts, more') = take_n more in
          mods (j - 1) more' (((nat_of_int (int_of_string name), cell = "1"), List.map (fun x -> nat_of_int (int_of_string x)) insts) :: acc)
        | _ -> failwith "short modules" in
    let doc = mods k (List.tl rest) [] in
    let c = List.sort_uniq compare (List.map int_of_nat (elect doc)) in
    "cands " ^ String.concat " " (List.map string_of_int c)
  | "ASSIGN" :: rest ->
    let (e, rest) = take_env rest in
    let (lhs, rest) = atom_of rest in
    let (rhs, _) = atom_of rest in
    (match read_assign e lhs rhs with
     | None -> "error"
     | Some pins ->
       let ps = String.concat " " (List.map (fun (o, i) -> tok_of_wire o ^ "=" ^ tok_of_wire i) pins) in
       let txt = match write_assign e pins with
         | None -> "assert"
         | Some ((co, bo), (ci, bi)) -> brk_str co bo ^ "=" ^ brk_str ci bi in
       ps ^ " | " ^ txt)
  | _ -> "bad command"

let () =
  try
    while true do
      let line = input_line stdin in
      (try print_endline (handle line) with Failure m -> print_endline ("driver-error " ^ m) | Not_found -> print_endline "driver-error");
    done
  with End_of_file -> ()
