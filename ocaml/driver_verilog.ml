(* MODEL: verilog_model *)
(* Line-protocol driver for the extracted Verilog mechanism models (engine "verilog").
   stdin: one command per line (see harness/verilog_mech.py); stdout: one answer line per command.
   Trusted glue: parsing and printing only. "~" = None. Cables are numbered 0.. and printed c0, c1, ... *)
open Verilog_model

let rec nat_of_int n = if n <= 0 then O else S (nat_of_int (n - 1))
let rec int_of_nat = function O -> 0 | S n -> 1 + int_of_nat n
let rec pos_of_int n = if n <= 1 then XH else if n land 1 = 0 then XO (pos_of_int (n lsr 1)) else XI (pos_of_int (n lsr 1))
let rec int_of_pos = function XH -> 1 | XO p -> 2 * int_of_pos p | XI p -> 2 * int_of_pos p + 1
let z_of_int n = if n = 0 then Z0 else if n > 0 then Zpos (pos_of_int n) else Zneg (pos_of_int (-n))
let int_of_z = function Z0 -> 0 | Zpos p -> int_of_pos p | Zneg p -> - (int_of_pos p)

let optz t = if t = "~" then None else Some (z_of_int (int_of_string t))
let boolt t = (t = "1")

let wire_of_tok t =
  if t = "~" then None
  else match String.split_on_char ':' t with
    | [c; i] -> Some (nat_of_int (int_of_string c), z_of_int (int_of_string i))
    | _ -> failwith ("bad wire " ^ t)

let tok_of_wire (c, i) = Printf.sprintf "%d:%d" (int_of_nat c) (int_of_z i)
let wires_str ws = String.concat " " (List.map tok_of_wire ws)

let brk_str c b =
  let n = "c" ^ string_of_int (int_of_nat c) in
  match b with
  | BNone -> n
  | BIdx i -> Printf.sprintf "%s[%d]" n (int_of_z i)
  | BRange (h, l) -> Printf.sprintf "%s[%d:%d]" n (int_of_z h) (int_of_z l)

let brk_only = function
  | None -> "assert"
  | Some BNone -> "none"
  | Some (BIdx i) -> Printf.sprintf "idx %d" (int_of_z i)
  | Some (BRange (h, l)) -> Printf.sprintf "range %d %d" (int_of_z h) (int_of_z l)

(* take k (lo, n) pairs: the environment *)
let take_env toks =
  match toks with
  | k :: rest ->
    let k = int_of_string k in
    let rec go j acc l = if j = 0 then (List.rev acc, l) else match l with
        | lo :: n :: l' -> go (j - 1) ((z_of_int (int_of_string lo), nat_of_int (int_of_string n)) :: acc) l'
        | _ -> failwith "short env" in
    let (tbl, rest) = go k [] rest in
    let arr = Array.of_list tbl in
    let e c = let i = int_of_nat c in if i < Array.length arr then arr.(i) else (Z0, S O) in
    (e, rest)
  | [] -> failwith "missing env"

let take_n toks =
  match toks with
  | c :: rest ->
    let n = int_of_string c in
    let rec go k acc l = if k = 0 then (List.rev acc, l) else match l with x :: l' -> go (k - 1) (x :: acc) l' | [] -> failwith "short list" in
    go n [] rest
  | [] -> failwith "missing count"

let atom_of toks = match toks with
  | "id" :: c :: r -> (AId (nat_of_int (int_of_string c)), r)
  | "bit" :: c :: i :: r -> (ABit (nat_of_int (int_of_string c), z_of_int (int_of_string i)), r)
  | "part" :: c :: h :: l :: r -> (APart (nat_of_int (int_of_string c), z_of_int (int_of_string h), z_of_int (int_of_string l)), r)
  | _ -> failwith "bad atom"

let expr_of toks = match toks with
  | "cat" :: m :: r ->
    let m = int_of_string m in
    let rec go k acc l = if k = 0 then (List.rev acc, l) else let (a, l') = atom_of l in go (k - 1) (a :: acc) l' in
    let (atoms, r') = go m [] r in (ECat atoms, r')
  | _ -> let (a, r) = atom_of toks in (EAtom a, r)

let bundle_str b = Printf.sprintf "%d:%s" (int_of_z b.b_lo) (String.concat "," (List.map (fun x -> string_of_int (int_of_nat x)) b.b_items))


(* ---------------- document-level reader: ELAB <document>  ->  "ok <json>" | "err <class>" ----------------
   Strings travel as x<hex of the bytes>; "~" = None. Grammar (prefix form, blank separated; {x} = repetition,
   always preceded by its count):
     doc    := nmod {module}
     module := name cell(0|1) nparam {key val} attrs nhdr {hentry} nbody {item}
     attrs  := n {key (~|val)}
     hentry := HP (~|in|out|inout) range name | HA name expr
     range  := ~ | R h l
     expr   := A atom | C n {atom}          oexpr := ~ | expr
     atom   := id name | bit name i | part name h l | c0 | c1
     item   := PD dir (~|wire|reg|tri0|tri1) range n {name} attrs | W type range n {name} attrs
             | I mod inst nparam {key val} attrs (N n {port oexpr} | P n {oexpr}) | DP inst key val | AS atom atom | OT  *)
let n_of_int i = if i = 0 then N0 else Npos (pos_of_int i)
let int_of_n = function N0 -> 0 | Npos p -> int_of_pos p
let str_of_tok t =
  if String.length t = 0 || t.[0] <> 'x' then failwith ("bad string " ^ t)
  else
    let h = String.sub t 1 (String.length t - 1) in
    List.init (String.length h / 2) (fun i -> n_of_int (int_of_string ("0x" ^ String.sub h (2 * i) 2)))
let hex_of_str s = "x" ^ String.concat "" (List.map (fun c -> Printf.sprintf "%02x" (int_of_n c)) s)

let need = function x :: r -> (x, r) | [] -> failwith "short document"
let rec take_k k f toks = if k = 0 then ([], toks) else let (x, r) = f toks in let (xs, r') = take_k (k - 1) f r in (x :: xs, r')
let take_count f toks = let (c, r) = need toks in take_k (int_of_string c) f r
let p_str toks = let (t, r) = need toks in (str_of_tok t, r)
let p_ostr toks = let (t, r) = need toks in ((if t = "~" then None else Some (str_of_tok t)), r)
let p_kv toks = let (k, r) = p_str toks in let (v, r) = p_str r in ((k, v), r)
let p_attr toks = let (k, r) = p_str toks in let (v, r) = p_ostr r in ((k, v), r)
let p_attrs toks = take_count p_attr toks
let p_z toks = let (t, r) = need toks in (z_of_int (int_of_string t), r)
let p_range toks = match toks with
  | "~" :: r -> (None, r)
  | "R" :: r -> let (h, r) = p_z r in let (l, r) = p_z r in (Some (h, l), r)
  | _ -> failwith "bad range"
let p_atom toks = match toks with
  | "id" :: r -> let (n, r) = p_str r in (DId n, r)
  | "bit" :: r -> let (n, r) = p_str r in let (i, r) = p_z r in (DBit (n, i), r)
  | "part" :: r -> let (n, r) = p_str r in let (h, r) = p_z r in let (l, r) = p_z r in (DPart (n, h, l), r)
  | "c0" :: r -> (DConst false, r)
  | "c1" :: r -> (DConst true, r)
  | _ -> failwith "bad atom"
let p_expr toks = match toks with
  | "A" :: r -> let (a, r) = p_atom r in (DAtom a, r)
  | "C" :: r -> let (l, r) = take_count p_atom r in (DCat l, r)
  | _ -> failwith "bad expr"
let p_oexpr toks = match toks with "~" :: r -> (None, r) | _ -> let (e, r) = p_expr toks in (Some e, r)
let p_dir t = match t with "in" -> DIn | "out" -> DOut | "inout" -> DInout | _ -> failwith "bad dir"
let p_ty t = match t with "wire" -> TWire | "reg" -> TReg | "tri0" -> TTri0 | "tri1" -> TTri1 | _ -> failwith "bad type"
let p_hentry toks = match toks with
  | "HP" :: d :: r ->
    let dir = if d = "~" then None else Some (p_dir d) in
    let (rg, r) = p_range r in let (n, r) = p_str r in (HPort (dir, rg, n), r)
  | "HA" :: r -> let (n, r) = p_str r in let (e, r) = p_expr r in (HAlias (n, e), r)
  | _ -> failwith "bad header entry"
let p_item toks = match toks with
  | "PD" :: d :: t :: r ->
    let ty = if t = "~" then None else Some (p_ty t) in
    let (rg, r) = p_range r in let (names, r) = take_count p_str r in let (a, r) = p_attrs r in
    (IPortDecl (p_dir d, ty, rg, names, a), r)
  | "W" :: t :: r ->
    let (rg, r) = p_range r in let (names, r) = take_count p_str r in let (a, r) = p_attrs r in
    (IWire (p_ty t, rg, names, a), r)
  | "I" :: r ->
    let (m, r) = p_str r in let (i, r) = p_str r in
    let (ps, r) = take_count p_kv r in let (a, r) = p_attrs r in
    (match r with
     | "N" :: r -> let (l, r) = take_count (fun t -> let (p, t) = p_str t in let (e, t) = p_oexpr t in ((p, e), t)) r in
       (IInst (m, i, ps, a, CNamed l), r)
     | "P" :: r -> let (l, r) = take_count p_oexpr r in (IInst (m, i, ps, a, CPos l), r)
     | _ -> failwith "bad connections")
  | "DP" :: r -> let (i, r) = p_str r in let (k, r) = p_str r in let (v, r) = p_str r in (IDefparam (i, k, v), r)
  | "AS" :: r -> let (a, r) = p_atom r in let (b, r) = p_atom r in (IAssign (a, b), r)
  | "OT" :: r -> (IOther, r)
  | _ -> failwith "bad item"
let p_module toks =
  let (name, r) = p_str toks in
  let (cell, r) = need r in
  let (ps, r) = take_count p_kv r in
  let (a, r) = p_attrs r in
  let (h, r) = take_count p_hentry r in
  let (b, r) = take_count p_item r in
  ({ vm_name = name; vm_cell = (cell = "1"); vm_params = ps; vm_attrs = a; vm_header = h; vm_body = b }, r)

let js s = "\"" ^ s ^ "\""
let jlist l = "[" ^ String.concat "," l ^ "]"
let jstr s = js (hex_of_str s)
let jostr = function None -> "null" | Some s -> jstr s
let jlabel = function LName n -> js ("n" ^ hex_of_str n) | LPos k -> js ("~" ^ string_of_int (int_of_nat k))
let jdir = function None -> js "undefined" | Some DIn -> js "in" | Some DOut -> js "out" | Some DInout -> js "inout"
let jty = function TWire -> js "wire" | TReg -> js "reg" | TTri0 -> js "tri0" | TTri1 -> js "tri1"
let jkv (k, v) = jlist [jstr k; jstr v]
let jattr (k, v) = jlist [jstr k; jostr v]
let jz z = string_of_int (int_of_z z)
let jbit = function None -> "null" | Some (c, i) -> jlist [jstr c; jz i]
let jep = function
  | EPort (l, b) -> jlist [js "P"; jlabel l; jz b]
  | EInst (i, l, b) -> jlist [js "I"; jstr i; jlabel l; jz b]
let jdef d =
  "{" ^ String.concat "," [
    "\"name\":" ^ jstr d.nd_name; "\"lib\":" ^ jstr d.nd_lib; "\"prim\":" ^ (if d.nd_prim then "true" else "false");
    "\"params\":" ^ jlist (List.map jkv d.nd_params); "\"attrs\":" ^ jlist (List.map jattr d.nd_attrs);
    "\"ports\":" ^ jlist (List.map (fun p -> jlist [jlabel p.np_label; jdir p.np_dir; string_of_int (int_of_nat p.np_width); jz p.np_lower]) d.nd_ports);
    "\"cables\":" ^ jlist (List.map (fun c -> jlist [jstr c.nc_name; string_of_int (int_of_nat c.nc_width); jz c.nc_lower; jty c.nc_type; jlist (List.map jattr c.nc_attrs)]) d.nd_cables);
    "\"insts\":" ^ jlist (List.map (fun i -> jlist [jstr i.ni_name; jstr i.ni_ref; jlist (List.map jkv i.ni_params); jlist (List.map jattr i.ni_attrs)]) d.nd_insts);
    "\"nets\":" ^ jlist (List.map (fun ((c, i), eps) -> jlist [jstr c; jz i; jlist (List.map jep eps)]) d.nd_nets);
    "\"assigns\":" ^ jlist (List.map (fun prs -> jlist (List.map (fun (o, i) -> jlist [jbit o; jbit i]) prs)) d.nd_assigns) ] ^ "}"
let jnv n = "{\"top\":" ^ jostr n.nv_top ^ ",\"defs\":" ^ jlist (List.map jdef n.nv_defs) ^ "}"
let err_str = function EAssert -> "assert" | EValue -> "value" | EAttr -> "attr" | EIndex -> "index" | EUnsupported u -> "unsupported " ^ (match u with UGlob -> "glob-name" | USelfInst -> "self-instantiating-top" | UTopChoice -> "top-depends-on-set-order" | UAliasDecl -> "alias-declaration-set-order" | UStatement -> "other-statement" | UInternal -> "internal")

let handle_elab rest =
  let (doc, _) = take_count p_module rest in
  match elab doc with
  | Ok n -> "ok " ^ jnv n
  | Err e -> "err " ^ err_str e

(* ---------------- document-level writer: EMIT <options> <netlist value>  ->  "ok <json>" | "err <class>" | "unsup <why>"
   (the json: {"doc": document, "reread": VElab.elab of it, "rt": verdict of VEmit.rt_check, "writable": VEmit.writable}). Grammar:
     options := (~ | n {name}) write_blackbox(0|1) defparam(0|1)
     nv      := (~|top) ndefs {def}
     def     := name lib prim(0|1) nparam {key val} attrs nports {port} ncables {cable} ninsts {inst} nnets {net} nassigns {assign}
     label   := N name | P k
     port    := label (~|in|out|inout) width lower
     cable   := name width lower type attrs
     inst    := name ref nparam {key val} attrs
     net     := cable index neps {ep}            ep := P label bit | I inst label bit
     assign  := n {obit obit}                    obit := ~ | B cable index   *)
let p_nat toks = let (t, r) = need toks in (nat_of_int (int_of_string t), r)
let p_label toks = match toks with
  | "N" :: r -> let (n, r) = p_str r in (LName n, r)
  | "P" :: r -> let (k, r) = p_nat r in (LPos k, r)
  | _ -> failwith "bad label"
let p_nvport toks =
  let (lb, r) = p_label toks in
  let (d, r) = need r in
  let (w, r) = p_nat r in let (lo, r) = p_z r in
  ({ np_label = lb; np_dir = (if d = "~" then None else Some (p_dir d)); np_width = w; np_lower = lo }, r)
let p_nvcable toks =
  let (n, r) = p_str toks in let (w, r) = p_nat r in let (lo, r) = p_z r in
  let (t, r) = need r in let (a, r) = p_attrs r in
  ({ nc_name = n; nc_width = w; nc_lower = lo; nc_type = p_ty t; nc_attrs = a }, r)
let p_nvinst toks =
  let (n, r) = p_str toks in let (rf, r) = p_str r in
  let (ps, r) = take_count p_kv r in let (a, r) = p_attrs r in
  ({ ni_name = n; ni_ref = rf; ni_params = ps; ni_attrs = a }, r)
let p_ep toks = match toks with
  | "P" :: r -> let (lb, r) = p_label r in let (b, r) = p_z r in (EPort (lb, b), r)
  | "I" :: r -> let (i, r) = p_str r in let (lb, r) = p_label r in let (b, r) = p_z r in (EInst (i, lb, b), r)
  | _ -> failwith "bad endpoint"
let p_net toks =
  let (c, r) = p_str toks in let (i, r) = p_z r in let (eps, r) = take_count p_ep r in (((c, i), eps), r)
let p_obit toks = match toks with
  | "~" :: r -> (None, r)
  | "B" :: r -> let (c, r) = p_str r in let (i, r) = p_z r in (Some (c, i), r)
  | _ -> failwith "bad bit"
let p_assign toks = take_count (fun t -> let (a, t) = p_obit t in let (b, t) = p_obit t in ((a, b), t)) toks
let p_nvdef toks =
  let (name, r) = p_str toks in let (lib, r) = p_str r in let (prim, r) = need r in
  let (ps, r) = take_count p_kv r in let (a, r) = p_attrs r in
  let (ports, r) = take_count p_nvport r in
  let (cables, r) = take_count p_nvcable r in
  let (insts, r) = take_count p_nvinst r in
  let (nets, r) = take_count p_net r in
  let (assigns, r) = take_count p_assign r in
  ({ nd_name = name; nd_lib = lib; nd_prim = (prim = "1"); nd_params = ps; nd_attrs = a; nd_ports = ports;
     nd_cables = cables; nd_insts = insts; nd_nets = nets; nd_assigns = assigns }, r)
let p_opts toks =
  let (dl, r) = match toks with
    | "~" :: r -> (None, r)
    | _ -> let (l, r) = take_count p_str toks in (Some l, r) in
  let (wb, r) = need r in let (dp, r) = need r in
  ({ o_definition_list = dl; o_write_blackbox = (wb = "1"); o_defparam = (dp = "1") }, r)

let jdirv = function DIn -> js "in" | DOut -> js "out" | DInout -> js "inout"
let jrange = function None -> "null" | Some (h, l) -> jlist [jz h; jz l]
let jatom = function
  | DId n -> jlist [js "id"; jstr n]
  | DBit (n, i) -> jlist [js "bit"; jstr n; jz i]
  | DPart (n, h, l) -> jlist [js "part"; jstr n; jz h; jz l]
  | DConst b -> jlist [js "c"; (if b then "1" else "0")]
let jexpr = function
  | DAtom a -> jlist [js "A"; jatom a]
  | DCat l -> jlist [js "C"; jlist (List.map jatom l)]
let joexpr = function None -> "null" | Some e -> jexpr e
let jhentry = function
  | HPort (d, rg, n) -> jlist [js "HP"; (match d with None -> "null" | Some d -> jdirv d); jrange rg; jstr n]
  | HAlias (n, e) -> jlist [js "HA"; jstr n; jexpr e]
let jitem = function
  | IPortDecl (d, ty, rg, names, a) ->
    jlist [js "PD"; jdirv d; (match ty with None -> "null" | Some t -> jty t); jrange rg; jlist (List.map jstr names); jlist (List.map jattr a)]
  | IWire (ty, rg, names, a) -> jlist [js "W"; jty ty; jrange rg; jlist (List.map jstr names); jlist (List.map jattr a)]
  | IInst (m, i, ps, a, c) ->
    let (k, l) = match c with
      | CNamed l -> ("N", List.map (fun (p, e) -> jlist [jstr p; joexpr e]) l)
      | CPos l -> ("P", List.map joexpr l) in
    jlist [js "I"; jstr m; jstr i; jlist (List.map jkv ps); jlist (List.map jattr a); js k; jlist l]
  | IDefparam (i, k, v) -> jlist [js "DP"; jstr i; jstr k; jstr v]
  | IAssign (a, b) -> jlist [js "AS"; jatom a; jatom b]
  | IOther -> jlist [js "OT"]
let jmodule m =
  "{" ^ String.concat "," [
    "\"name\":" ^ jstr m.vm_name; "\"cell\":" ^ (if m.vm_cell then "true" else "false");
    "\"params\":" ^ jlist (List.map jkv m.vm_params); "\"attrs\":" ^ jlist (List.map jattr m.vm_attrs);
    "\"header\":" ^ jlist (List.map jhentry m.vm_header); "\"body\":" ^ jlist (List.map jitem m.vm_body) ] ^ "}"
let wunsup_str = function
  | WAssignShape -> "assign-shape" | WUnnamedPort -> "unnamed-port"
  | WName -> "name" | WValue -> "not-a-netlist-value"

let handle_emit rest =
  let (o, r) = p_opts rest in
  let (top, r) = p_ostr r in
  let (defs, _) = take_count p_nvdef r in
  let n = { nv_top = top; nv_defs = defs } in
  match emit o n with
  | WOk d ->
    let back = match elab d with Ok n' -> "{\"ok\":" ^ jnv n' ^ "}" | Err e -> "{\"err\":\"" ^ err_str e ^ "\"}" in
    "ok {\"doc\":" ^ jlist (List.map jmodule d) ^ ",\"reread\":" ^ back ^ ",\"rt\":" ^ (if rt_check o n then "true" else "false") ^ ",\"writable\":" ^ (if writable o n then "true" else "false") ^ "}"
  | WErr e -> "err " ^ err_str e
  | WUnsup u -> "unsup " ^ wunsup_str u

(* ---------------- character-level tokenizer (Fmt/VLex.v): LEX <hex of the text | ->  ->
   "raw <n> {tok} | seen <m> {tok}"; raw = generate_tokens (comments included), seen = the has_next/next stream.
   Everything here is a loop: texts of a few MB travel on one line. *)
let handle_lex rest =
  let h = match rest with [h] -> h | _ -> failwith "LEX: one argument" in
  let text =
    if h = "-" then []
    else begin
      if String.length h land 1 = 1 then failwith "LEX: odd hex";
      let acc = ref [] in
      for i = String.length h / 2 - 1 downto 0 do
        acc := n_of_int (int_of_string ("0x" ^ String.sub h (2 * i) 2)) :: !acc
      done;
      !acc
    end in
  let b = Buffer.create (String.length h + 64) in
  let put name ts =
    Buffer.add_string b name; Buffer.add_char b ' ';
    Buffer.add_string b (string_of_int (List.length ts));
    List.iter (fun t -> Buffer.add_string b " x"; List.iter (fun c -> Buffer.add_string b (Printf.sprintf "%02x" (int_of_n c))) t) ts in
  put "raw" (tokenize_raw_loop text);
  Buffer.add_string b " | ";
  put "seen" (tokenize_loop text);
  Buffer.contents b

let handle line =
  let toks = List.filter (fun s -> s <> "") (String.split_on_char ' ' line) in
  match toks with
  | "ELAB" :: rest -> handle_elab rest
  | "EMIT" :: rest -> handle_emit rest
  | "LEX" :: rest -> handle_lex rest
  | ["GW"; lo; n; l; r] ->
    let n = int_of_string n in
    let ws = List.init n (fun i -> i) in
    (match get_wires (z_of_int (int_of_string lo)) ws (optz l) (optz r) with
     | Some t -> "ok " ^ String.concat " " (List.map string_of_int t)
     | None -> "indexerror")
  | ["BR"; lo; w; l; h] -> brk_only (write_brackets (z_of_int (int_of_string lo)) (z_of_int (int_of_string w)) (optz l) (optz h))
  | ["DECL"; lo; w] -> brk_only (write_decl (z_of_int (int_of_string lo)) (z_of_int (int_of_string w)))
  | ["POP"; l; r] -> let (lo, w) = populate (optz l) (optz r) in Printf.sprintf "%d %d" (int_of_z lo) (int_of_z w)
  | "CONCAT" :: rest ->
    let (e, rest) = take_env rest in
    let (ws, _) = take_n rest in
    let ws = List.map wire_of_tok ws in
    (match write_concat e ws with
     | None -> "assert"
     | Some t ->
       let txt = String.concat "," (List.map (fun (c, b) -> brk_str c b) t) in
       let back = match read_concat e t with Some w -> wires_str w | None -> "error" in
       txt ^ " | " ^ back)
  | "ALIGN" :: rest ->
    let (pins, rest) = take_n rest in
    let nw = int_of_string (List.hd rest) in
    let pins = List.map int_of_string pins in
    let ws = List.init nw (fun i -> i) in
    (match align (fun p -> z_of_int p) pins ws with
     | None -> "assert"
     | Some calls -> String.concat " " (List.map (fun (w, p) -> Printf.sprintf "%d>%d" w p) calls))
  | "UPD" :: kind :: l0 :: r0 :: rest ->
    let b0 = new_bundle (optz l0) (optz r0) O in
    let f = if kind = "port" then update_port else update_cable in
    let rec go b toks acc = match toks with
      | l :: r :: d :: more -> let b' = f (optz l) (optz r) (boolt d) b in go b' more (bundle_str b' :: acc)
      | _ -> List.rev acc in
    String.concat " | " (bundle_str b0 :: go b0 rest [])
  | "ISCAT" :: name :: rest ->
    let (ws, _) = take_n rest in
    let nm = if name = "~" then None else Some (nat_of_int (int_of_string name)) in
    if is_pinset_concatenated nm (List.map wire_of_tok ws) then "1" else "0"
  | "PORT" :: rest ->
    let (e, rest) = take_env rest in
    let (ws, _) = take_n rest in
    let ws = List.map wire_of_tok ws in
    (match emit_port e ws with
     | None -> "assert"
     | Some t ->
       let txt = match t with
         | PEmpty -> "empty"
         | PPlain (c, b) -> "plain " ^ brk_str c b
         | PConcat l -> "cat " ^ String.concat "," (List.map (fun (c, b) -> brk_str c b) l) in
       let back = match read_port e t with Some w -> wires_str w | None -> "error" in
       txt ^ " | " ^ back)
  | "EXPR" :: rest ->
    let (e, rest) = take_env rest in
    let (x, _) = expr_of rest in
    let r = match reader_expr e x with Some w -> "ok " ^ wires_str w | None -> "error" in
    r ^ " | " ^ wires_str (expr_bits e x)
  | "ELECT" :: rest ->
    (* ELECT k  then per module: name cell(0/1) n inst... *)
    let k = int_of_string (List.hd rest) in
    let rec mods j toks acc = if j = 0 then List.rev acc else match toks with
        | name :: cell :: more ->
          let (insts, more') = take_n more in
          mods (j - 1) more' (((nat_of_int (int_of_string name), cell = "1"), List.map (fun x -> nat_of_int (int_of_string x)) insts) :: acc)
        | _ -> failwith "short modules" in
    let doc = mods k (List.tl rest) [] in
    let c = List.sort_uniq compare (List.map int_of_nat (elect doc)) in
    "cands " ^ String.concat " " (List.map string_of_int c)
  | "ASSIGN" :: rest ->
    let (e, rest) = take_env rest in
    let (lhs, rest) = atom_of rest in
    let (rhs, _) = atom_of rest in
    (match read_assign e lhs rhs with
     | None -> "error"
     | Some pins ->
       let ps = String.concat " " (List.map (fun (o, i) -> tok_of_wire o ^ "=" ^ tok_of_wire i) pins) in
       let txt = match write_assign e pins with
         | None -> "assert"
         | Some ((co, bo), (ci, bi)) ->
           (* the reader on the text just written: the same pins again (C04_assign_roundtrip) *)
           let back = match read_assign e (brk_atom co bo) (brk_atom ci bi) with
             | None -> "error"
             | Some p2 -> String.concat " " (List.map (fun (o, i) -> tok_of_wire o ^ "=" ^ tok_of_wire i) p2) in
           brk_str co bo ^ "=" ^ brk_str ci bi ^ " | " ^ back in
       ps ^ " | " ^ txt)
  | _ -> "bad command"

let () =
  try
    while true do
      let line = input_line stdin in
      (try print_endline (handle line) with Failure m -> print_endline ("driver-error " ^ m) | Not_found -> print_endline "driver-error");
    done
  with End_of_file -> ()
