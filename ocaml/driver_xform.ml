(* MODEL: xform_model *)
(* Line-protocol driver for the extracted IR + clone/uniquify/flatten model (engine "xform"); derived from driver_ir.ml.
   stdin : one op per line (see harness/ir_proto.py); a line "reset" starts a new history.
   stdout: one canonical dump line per op. Trusted glue: parsing and printing only. *)
open Xform_model

let rec nat_of_int n = if n <= 0 then O else S (nat_of_int (n - 1))
let rec int_of_nat = function O -> 0 | S n -> 1 + int_of_nat n
let rec pos_of_int n = if n <= 1 then XH else if n land 1 = 0 then XO (pos_of_int (n lsr 1)) else XI (pos_of_int (n lsr 1))
let rec int_of_pos = function XH -> 1 | XO p -> 2 * int_of_pos p | XI p -> 2 * int_of_pos p + 1
let n_of_int n = if n = 0 then N0 else Npos (pos_of_int n)
let int_of_n = function N0 -> 0 | Npos p -> int_of_pos p
let z_of_int n = if n = 0 then Z0 else if n > 0 then Zpos (pos_of_int n) else Zneg (pos_of_int (-n))
let int_of_z = function Z0 -> 0 | Zpos p -> int_of_pos p | Zneg p -> - (int_of_pos p)

(* strings on the wire: "-" = empty, otherwise comma-separated code points; "~" = None *)
let str_of_tok t = if t = "-" then [] else List.map (fun x -> n_of_int (int_of_string x)) (String.split_on_char ',' t)
let tok_of_str s = if s = [] then "-" else String.concat "," (List.map (fun c -> string_of_int (int_of_n c)) s)
let optstr_of_tok t = if t = "~" then None else Some (str_of_tok t)
let optid_of_tok t = if t = "~" then None else Some (nat_of_int (int_of_string t))
let id_of_tok t = nat_of_int (int_of_string t)

let val_of_tok t =
  if t = "n" then VNone
  else match t.[0] with
    | 's' -> VStr (str_of_tok (String.sub t 2 (String.length t - 2)))
    | 'i' -> VInt (z_of_int (int_of_string (String.sub t 2 (String.length t - 2))))
    | 'b' -> VBool (t = "b:1")
    | _ -> failwith ("bad val " ^ t)

let tok_of_val = function
  | VStr s -> "s:" ^ tok_of_str s
  | VInt z -> "i:" ^ string_of_int (int_of_z z)
  | VBool b -> if b then "b:1" else "b:0"
  | VNone -> "n"

let pin_of_tok t =
  if t = "D" then PDet
  else if t.[0] = 'I' then PIn (id_of_tok (String.sub t 1 (String.length t - 1)))
  else match String.split_on_char '.' (String.sub t 1 (String.length t - 1)) with
    | [a; b] -> POut (id_of_tok a, id_of_tok b)
    | _ -> failwith ("bad pin " ^ t)

let tok_of_pin = function
  | PIn i -> "I" ^ string_of_int (int_of_nat i)
  | POut (n, i) -> "O" ^ string_of_int (int_of_nat n) ^ "." ^ string_of_int (int_of_nat i)
  | PDet -> "D"

let kind_of_tok = function
  | "netlist" -> KNetlist | "library" -> KLibrary | "definition" -> KDefinition | "port" -> KPort
  | "cable" -> KCable | "wire" -> KWire | "pin" -> KPin | "instance" -> KInstance
  | t -> failwith ("bad kind " ^ t)
let tok_of_kind = function
  | KNetlist -> "netlist" | KLibrary -> "library" | KDefinition -> "definition" | KPort -> "port"
  | KCable -> "cable" | KWire -> "wire" | KPin -> "pin" | KInstance -> "instance"
let rel_of_tok = function
  | "libs" -> RLibs | "defs" -> RDefs | "ports" -> RPorts | "cables" -> RCables
  | "children" -> RChildren | "pins" -> RPins | "wires" -> RWires
  | t -> failwith ("bad rel " ^ t)
let tok_of_rel = function
  | RLibs -> "libs" | RDefs -> "defs" | RPorts -> "ports" | RCables -> "cables"
  | RChildren -> "children" | RPins -> "pins" | RWires -> "wires"

(* token stream helpers *)
let take_n toks = match toks with
  | c :: rest ->
    let n = int_of_string c in
    let rec go k acc l = if k = 0 then (List.rev acc, l) else match l with x :: l' -> go (k - 1) (x :: acc) l' | [] -> failwith "short list" in
    go n [] rest
  | [] -> failwith "missing count"

let take_props toks = match toks with
  | c :: rest ->
    let n = int_of_string c in
    let rec go k acc l = if k = 0 then (List.rev acc, l) else match l with kk :: vv :: l' -> go (k - 1) ((str_of_tok kk, val_of_tok vv) :: acc) l' | _ -> failwith "short props" in
    go n [] rest
  | [] -> failwith "missing count"

let optnat_of_tok t = if t = "~" then None else Some (nat_of_int (int_of_string t))

let parse_op line : op =
  match String.split_on_char ' ' (String.trim line) with
  | "new" :: k :: nm :: rest -> let (props, _) = take_props rest in ONew (kind_of_tok k, optstr_of_tok nm, props)
  | "create" :: r :: p :: nm :: rest ->
    let (props, rest) = take_props rest in
    (match rest with
     | [items; rf] -> OCreate (rel_of_tok r, id_of_tok p, optstr_of_tok nm, props, nat_of_int (int_of_string items), optid_of_tok rf)
     | _ -> failwith "bad create")
  | [ "items"; r; p; n ] -> OCreateItems (rel_of_tok r, id_of_tok p, nat_of_int (int_of_string n))
  | [ "add"; r; p; c; pos ] -> OAdd (rel_of_tok r, id_of_tok p, id_of_tok c, optnat_of_tok pos)
  | [ "remove"; r; p; c ] -> ORemove (rel_of_tok r, id_of_tok p, id_of_tok c)
  | "removefrom" :: r :: p :: rest -> let (l, _) = take_n rest in ORemoveFrom (rel_of_tok r, id_of_tok p, List.map id_of_tok l)
  | "reorder" :: r :: p :: rest -> let (l, _) = take_n rest in OReorder (rel_of_tok r, id_of_tok p, List.map id_of_tok l)
  | "reorderwire" :: w :: rest -> let (l, _) = take_n rest in OReorderWire (id_of_tok w, List.map pin_of_tok l)
  | [ "connect"; w; p; pos ] -> OConnect (id_of_tok w, pin_of_tok p, optnat_of_tok pos)
  | [ "disconnect"; w; p ] -> ODisconnect (id_of_tok w, pin_of_tok p)
  | "disconnectfrom" :: w :: rest -> let (l, _) = take_n rest in ODisconnectFrom (id_of_tok w, List.map pin_of_tok l)
  | "setref" :: x :: v :: ([] | [ _ ]) -> (* optional 4th token: `del inst.reference` instead of assigning None *)
    OSetReference (id_of_tok x, optid_of_tok v)
  | [ "settop"; n; a ] ->
    let arg = if a = "N" then TopNone
      else if a.[0] = 'I' then TopInst (id_of_tok (String.sub a 1 (String.length a - 1)))
      else TopDef (id_of_tok (String.sub a 1 (String.length a - 1))) in
    OSetTop (id_of_tok n, arg)
  | [ "setname"; e; nm ] -> OSetName (id_of_tok e, optstr_of_tok nm)
  | [ "delname"; e ] -> ODelName (id_of_tok e)
  | [ "dset"; e; k; v ] -> ODSet (id_of_tok e, str_of_tok k, val_of_tok v)
  | [ "ddel"; e; k ] -> ODDel (id_of_tok e, str_of_tok k)
  | [ "dpop"; e; k ] -> ODPop (id_of_tok e, str_of_tok k)
  | [ "downto"; b; v ] -> OSetDownto (id_of_tok b, v = "1")
  | "scalar" :: b :: v :: ([] | [ _ ]) -> (* optional 4th token: spelled through the inverse attribute is_array *)
    OSetScalar (id_of_tok b, v = "1")
  | [ "lower"; b; v ] -> OSetLower (id_of_tok b, z_of_int (int_of_string v))
  | "direction" :: p :: d :: ([] | [ _ ]) -> OSetDirection (id_of_tok p, (match d with "0" -> DUndef | "1" -> DInout | "2" -> DIn | _ -> DOut))
  | [ "policy"; p ] -> OSetPolicy (if p = "1" then PolEdif else PolDefault)
  | _ -> failwith ("bad op: " ^ line)

(* ---- canonical dump ---- *)
let sid x = string_of_int (int_of_nat x)
let soid = function None -> "~" | Some x -> sid x
let slist f l = "[" ^ String.concat " " (List.map f l) ^ "]"
let ssorted f l = "{" ^ String.concat " " (List.sort compare (List.map f l)) ^ "}"

let tok_of_toparg = function TopInst x -> "I" ^ sid x | TopDef d -> "D" ^ sid d | TopNone -> "N"

let tok_of_event = function
  | ECreate (k, x) -> "create:" ^ tok_of_kind k ^ ":" ^ sid x
  | EAdd (r, p, c) -> "add:" ^ tok_of_rel r ^ ":" ^ sid p ^ ":" ^ sid c
  | ERemove (r, p, c) -> "remove:" ^ tok_of_rel r ^ ":" ^ sid p ^ ":" ^ sid c
  | EReference (n, d) -> "reference:" ^ sid n ^ ":" ^ soid d
  | ETop (n, a) -> "top:" ^ sid n ^ ":" ^ tok_of_toparg a
  | EConnect (w, p) -> "connect:" ^ sid w ^ ":" ^ tok_of_pin p
  | EDisconnect (w, p) -> "disconnect:" ^ sid w ^ ":" ^ tok_of_pin p
  | EDictSet (e, k, v) -> "dset:" ^ sid e ^ ":" ^ tok_of_str k ^ ":" ^ tok_of_val v
  | EDictDel (e, k) -> "ddel:" ^ sid e ^ ":" ^ tok_of_str k
  | EDictPop (e, k) -> "dpop:" ^ sid e ^ ":" ^ tok_of_str k

let tok_of_exn = function
  | XAssert -> "assert" | XValue -> "value" | XKey -> "key" | XRuntime -> "runtime" | XType -> "type" | XStuck -> "key"

let sdata l = ssorted (fun (k, v) -> tok_of_str k ^ "=" ^ tok_of_val v) l

let all_kinds = [ KLibrary; KDefinition; KPort; KCable; KInstance ]
let sns = function
  | None -> "~"
  | Some t ->
    let tabs which tag =
      List.concat_map (fun k -> List.map (fun (nm, e) -> tag ^ tok_of_kind k ^ ":" ^ tok_of_str nm ^ "=" ^ sid e) (which k)) all_kinds in
    (match t.ns_pol with PolDefault -> "D" | PolEdif -> "E")
    ^ "{" ^ String.concat " " (List.sort compare (tabs t.ns_names "n:" @ tabs t.ns_idents "i:")) ^ "}"

let sdir = function DUndef -> "0" | DInout -> "1" | DIn -> "2" | DOut -> "3"
let sbool b = if b then "1" else "0"

let dump_obj (s : state) (x : id) : Stdlib.String.t =
  let b = Buffer.create 64 in
  let add = Buffer.add_string b in
  (match s.kind_of x with
   | None -> add (sid x ^ ":?")
   | Some k ->
     add (sid x ^ ":" ^ tok_of_kind k);
     (match k with
      | KNetlist ->
        add ("; libs=" ^ slist sid (s.kids RLibs x) ^ "; top=" ^ soid (s.top x)
             ^ "; data=" ^ sdata (s.data x) ^ "; ns=" ^ sns (s.nstab x))
      | KLibrary ->
        add ("; par=" ^ soid (s.par RLibs x) ^ "; defs=" ^ slist sid (s.kids RDefs x)
             ^ "; data=" ^ sdata (s.data x) ^ "; ns=" ^ sns (s.nstab x))
      | KDefinition ->
        add ("; par=" ^ soid (s.par RDefs x) ^ "; ports=" ^ slist sid (s.kids RPorts x)
             ^ "; cables=" ^ slist sid (s.kids RCables x) ^ "; children=" ^ slist sid (s.kids RChildren x)
             ^ "; refs=" ^ ssorted sid (s.drefs x) ^ "; data=" ^ sdata (s.data x) ^ "; ns=" ^ sns (s.nstab x))
      | KPort ->
        add ("; par=" ^ soid (s.par RPorts x) ^ "; pins=" ^ slist sid (s.kids RPins x)
             ^ "; dn=" ^ sbool (s.bdownto x) ^ "; sc=" ^ sbool (read_scalar s x) ^ "; rs=" ^ sbool (s.bscalar x)
             ^ "; lo=" ^ string_of_int (int_of_z (s.blower x)) ^ "; dir=" ^ sdir (s.pdir x)
             ^ "; data=" ^ sdata (s.data x))
      | KCable ->
        add ("; par=" ^ soid (s.par RCables x) ^ "; wires=" ^ slist sid (s.kids RWires x)
             ^ "; dn=" ^ sbool (s.bdownto x) ^ "; sc=" ^ sbool (read_scalar s x) ^ "; rs=" ^ sbool (s.bscalar x)
             ^ "; lo=" ^ string_of_int (int_of_z (s.blower x)) ^ "; data=" ^ sdata (s.data x))
      | KWire -> add ("; par=" ^ soid (s.par RWires x) ^ "; pins=" ^ slist tok_of_pin (s.wpins x))
      | KPin -> add ("; par=" ^ soid (s.par RPins x) ^ "; wire=" ^ soid (s.ipwire x))
      | KInstance ->
        add ("; par=" ^ soid (s.par RChildren x) ^ "; ref=" ^ soid (s.iref x) ^ "; istop=" ^ sbool (s.istop x)
             ^ "; pins=" ^ slist (fun (i, w) -> sid i ^ ">" ^ soid w) (s.ipins x)
             ^ "; data=" ^ sdata (s.data x))));
  Buffer.contents b

let dump (s : state) (out : exn option) : Stdlib.String.t =
  let n = int_of_nat s.next in
  let objs = List.init n (fun i -> dump_obj s (nat_of_int i)) in
  let evs = List.sort compare (List.map tok_of_event s.log) in
  (match out with None -> "ok" | Some x -> tok_of_exn x)
  ^ " | ev " ^ String.concat " " evs
  ^ " | next=" ^ string_of_int n ^ " pol=" ^ (match s.policy with PolDefault -> "D" | PolEdif -> "E")
  ^ " | " ^ String.concat " | " objs

let tok_of_xexn = function
  | XE e -> tok_of_exn e
  | XOutOfFuel -> "outoffuel"
  | XAttr -> "attr"

let parse_xop line : xop =
  match String.split_on_char ' ' (String.trim line) with
  | [ "clone"; e ] -> XClone (id_of_tok e)
  | [ "uniquify"; n; fuel ] -> XUniquify (id_of_tok n, nat_of_int (int_of_string fuel))
  | [ "flatten"; n; fuel ] -> XFlatten (id_of_tok n, nat_of_int (int_of_string fuel))
  | _ -> XIr (parse_op line)

let xdump (x : xstate) (out : xexn option) : Stdlib.String.t =
  let d = dump x.st None in
  (* replace the leading "ok" by the x-outcome *)
  let rest = Stdlib.String.sub d 2 (Stdlib.String.length d - 2) in
  (match out with None -> "ok" | Some e -> tok_of_xexn e) ^ rest

(* ---- cross-check of extraction + this file's glue against vm_compute (harness/coq_eval.py) ----
   "digest" summarises the history since the last "reset" twice: by the extracted [x_case] on the list
   of parsed ops (only the op parser is glue), and by this driver's own loop (the states it went through
   are kept in [trace]; at "digest" their event logs are folded with the extracted [xev_more] and the
   current state is hashed by the extracted [xstate_digest]; nothing is computed for runs that never ask). *)
let sn x = string_of_int (int_of_n x)
let scodes l = if l = [] then "-" else String.concat "," (List.map sn l)

let () =
  let st = ref xinit in
  let trace = ref [] in
  let hist = ref [] in
  try
    while true do
      let line = input_line stdin in
      if String.trim line = "reset" then (st := xinit; trace := []; hist := []; print_endline "reset")
      else if String.trim line = "" then ()
      else if String.trim line = "digest" then begin
        let ((outs, h), d) = x_case (List.rev !hist) in
        let evh = List.fold_left (fun a (s1, out) -> xev_more a s1 out) ev0 (List.rev !trace) in
        print_endline ("digest " ^ scodes outs ^ " " ^ sn h ^ " " ^ sn d ^ " " ^ sn evh ^ " " ^ sn (xstate_digest !st))
      end
      else begin
        let o = parse_xop line in
        hist := o :: !hist;
        let x0 = { !st with st = { (!st).st with log = [] } } in
        let (x1, out) = xstep x0 o in
        st := x1;
        trace := (x1, out) :: !trace;
        print_endline (xdump x1 out)
      end
    done
  with End_of_file -> ()
