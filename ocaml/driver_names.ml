(* MODEL: names_model *)
(* Line-protocol driver for the extracted "names" model (engine names, property C17).
   stdin, one request per line (tokens separated by one space):
     mv <fuel|d> <i> <k> (<name> <ident|~> <rename 0|1>){k} <name>   make_valid(fuel, i, objs, name)
     assign <k> (<name> <ident|~> <rename 0|1>){k}                   assign_all objs
     lf <s> | cf <s> | sfx <s> | chk <s> | lower <s>                 the helper functions
   strings: "-" = empty, otherwise comma-separated code points; "~" = absent.
   stdout: one answer line per request. Trusted glue: parsing and printing only. *)
open Names_model

let rec nat_of_int n = if n <= 0 then O else S (nat_of_int (n - 1))
let rec int_of_nat = function O -> 0 | S n -> 1 + int_of_nat n
let rec pos_of_int n = if n <= 1 then XH else if n land 1 = 0 then XO (pos_of_int (n lsr 1)) else XI (pos_of_int (n lsr 1))
let rec int_of_pos = function XH -> 1 | XO p -> 2 * int_of_pos p | XI p -> 2 * int_of_pos p + 1
let n_of_int n = if n = 0 then N0 else Npos (pos_of_int n)
let int_of_n = function N0 -> 0 | Npos p -> int_of_pos p

let str_of_tok t = if t = "-" then [] else List.map (fun x -> n_of_int (int_of_string x)) (String.split_on_char ',' t)
let tok_of_str s = if s = [] then "-" else String.concat "," (List.map (fun c -> string_of_int (int_of_n c)) s)
let optstr_of_tok t = if t = "~" then None else Some (str_of_tok t)
let tok_of_optstr = function None -> "~" | Some s -> tok_of_str s

let rec take_sibs k toks acc =
  if k = 0 then (List.rev acc, toks)
  else match toks with
    | n :: i :: r :: rest ->
        take_sibs (k - 1) rest ({ s_name = str_of_tok n; s_ident = optstr_of_tok i; s_rename = (r = "1") } :: acc)
    | _ -> failwith "bad sibling list"

let show_res f = function
  | Ok a -> "ok " ^ f a
  | OutOfFuel -> "fuel"
  | IndexError -> "index"

let b2s b = if b then "1" else "0"

let handle line =
  match String.split_on_char ' ' line with
  | "mv" :: fuel :: i :: k :: rest ->
      let objs, rest = take_sibs (int_of_string k) rest [] in
      let name = match rest with [n] -> str_of_tok n | _ -> failwith "bad mv" in
      let fuel = if fuel = "d" then fuel_for objs else nat_of_int (int_of_string fuel) in
      show_res tok_of_str (make_valid fuel (nat_of_int (int_of_string i)) objs name)
  | "assign" :: k :: rest ->
      let objs, _ = take_sibs (int_of_string k) rest [] in
      let r = assign_all objs in
      show_res (fun out ->
        String.concat " " (List.map (fun e -> tok_of_optstr e.s_ident ^ " " ^ b2s e.s_rename) out)
        ^ " | legal=" ^ b2s (all_assigned_legal out) ^ " distinct=" ^ b2s (idents_distinct_caseless out)
        ^ " c17=" ^ b2s (c17_ok out)) r
  | [ "lf"; s ] -> tok_of_str (length_fix (str_of_tok s))
  | [ "cf"; s ] -> (match characters_fix (str_of_tok s) with None -> "index" | Some r -> tok_of_str r)
  | [ "sfx"; s ] -> (match sdn_suffix (str_of_tok s) with
                     | None -> "~"
                     | Some m -> string_of_int (int_of_nat m.m_start) ^ " " ^ string_of_int (int_of_nat m.m_len)
                                 ^ " " ^ tok_of_str (dec m.m_num))
  | [ "chk"; s ] -> b2s (check_edif_identifier (str_of_tok s))
  | [ "lower"; s ] -> tok_of_str (lower (str_of_tok s))
  | _ -> "error bad request"

let () =
  try
    while true do
      let line = input_line stdin in
      (try print_endline (handle line) with Failure m -> print_endline ("error " ^ m));
    done
  with End_of_file -> ()
